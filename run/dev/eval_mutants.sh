#!/bin/bash
# usage: eval_mutants.sh <round tag, e.g. r8> [PROP ...]
# Evaluates the sub-agents' patches /tmp/wt/cNN<tag>.out/m{1,2}.patch.diff against the check of their property WITHOUT touching /repo:
# a scratch worktree of /repo (HEAD) receives the patch, and a copy of the harness whose go.mod points at that worktree is built.
set -u
tag=$1; shift
props=${@:-01 02 03 04 05 06 07 08 09 10 11 12 13 14 15 16 17 18 19 20}
wt=/tmp/wt/eval; h=/var/tmp/harness-eval
git -C /repo worktree remove --force $wt 2>/dev/null; git -C /repo worktree add -q --detach $wt HEAD || exit 2
rm -rf $h; cp -r /verif/harness $h; sed -i "s#=> /repo#=> $wt#" $h/go.mod
for p in $props; do for m in m1 m2; do
  f=/tmp/wt/c${p}${tag}.out/$m.patch.diff
  [ -f $f ] || { echo "C$p $m: missing"; continue; }
  if ! git -C $wt apply $f; then echo "C$p $m: PATCH DOES NOT APPLY"; continue; fi
  prop=${EVAL_PROP:-C$p}
  r=$(cd /verif && VERIF_HARNESS_DIR=$h VERIF_EVIDENCE_DIR=/var/tmp/verif-evidence-scratch VERIF_SEED=${VERIF_SEED:-1} python3 run/check.py $prop 2>&1 | grep -a -E "^violation|^OK|^INCONCLUSIVE|BUILD|^VIOLATION" | head -1 | cut -c1-230)
  echo "C$p $m on $prop: $r"
  git -C $wt checkout -q -- . && git -C $wt clean -fdq
done; done
git -C /repo worktree remove --force $wt; rm -rf $h
