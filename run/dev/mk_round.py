#!/usr/bin/env python3
"""Prepare a round of mutation sub-agents: for each property id create a scratch worktree of /repo under /tmp/wt/<id><round>,
a property text file (only the property's own text, nothing else from /verif) and the prompt file to hand to a fresh sub-agent.
usage: mk_round.py <round tag, e.g. r4> C01 C05 ...
Then launch one general-purpose sub-agent per id with: "Read the file /tmp/wt/<id><round>.prompt.txt and follow its instructions exactly."
Evaluate with run/try_mutant.sh (only while no other campaign builds from /repo), keep with run/keep_mutant.py, remove the worktrees."""
import glob, json, os, re, subprocess, sys
rnd = sys.argv[1]
os.makedirs("/tmp/wt", exist_ok=True)
props = {json.loads(l)["id"]: json.loads(l) for l in open("/verif/properties.jsonl")}
tmpl = open("/verif/run/dev/mutant_prompt.tmpl").read()
for pid in sys.argv[2:]:
    lid = pid.lower() + rnd
    subprocess.check_call(["git", "-C", "/repo", "worktree", "add", "-q", "--detach", "/tmp/wt/" + lid, "HEAD"])
    p = props[pid]
    open("/tmp/wt/%s.prop.txt" % lid, "w").write("%s - %s\n\nStatement: %s\n\nQuantified over: %s\n\nWhy the existing tests cannot settle it: %s\n\nAnchors: %s\n" % (
        pid, p["title"], p["statement"], p["quantifier"]["text"], p["why_tests_cant"], json.dumps(p["anchors"], indent=1)))
    prev = []
    for mf in sorted(glob.glob("/verif/seeded/%s-*/meta.json" % pid)):
        m = json.load(open(mf))
        prev.append("- " + re.split(r"(?<=[.;])\s", (m.get("what") or ""), 1)[0][:300])
    hint = ("Earlier rounds already produced the following changes for this property; yours must be DIFFERENT in mechanism and location "
            "(other functions / other clauses of the property statement / other parameter combinations):\n" + "\n".join(prev)) if prev else ""
    open("/tmp/wt/%s.prompt.txt" % lid, "w").write(tmpl.replace("@ID@", lid).replace("@PID@", pid).replace("@HINT@", hint))
    print(lid)
