#!/bin/bash
# usage: run_quick.sh <seeds...>
cd /verif
for seed in "$@"; do
for p in C01 C02 C03 C04 C05 C06 C07 C08 C09 C10 C11 C12 C13 C14 C15 C16 C17 C18 C19 C20; do
  s=$(date +%s)
  VERIF_SEED=$seed python3 run/check.py $p > /var/tmp/quick_${p}_$seed.out 2>&1
  rc=$?
  echo "$p seed=$seed rc=$rc wall=$(( $(date +%s) - s ))s $(grep -c '^VIOLATION' /var/tmp/quick_${p}_$seed.out) violations" >> /var/tmp/quick.log
done
done
