#!/bin/bash
# Development aid (not a registered check): statement coverage of livesim2's own packages reached by the generated checks.
# usage: coverage.sh [pct] [props...]   -> /var/tmp/cov/<prop>.out, merged summary /var/tmp/cov/funcs.txt
# Builds from /repo's working tree: do not run while a seeded change is applied there.
export GOFLAGS=-mod=mod GOPROXY=off GOSUMDB=off GOTOOLCHAIN=local
pct=${1:-30}; shift
props=${@:-c01 c02 c03 c04 c05 c06 c07 c08 c09 c10 c11 c12 c13 c14 c15 c16 c17 c18 c19 c20}
out=/var/tmp/cov; mkdir -p $out
cd /verif/harness
for p in $props; do
  wd=$(mktemp -d /var/tmp/cov-$p-XXXX)
  go test -c -tags verif -vet=off -cover -coverpkg=github.com/Dash-Industry-Forum/livesim2/... -o $wd/t.test ./props/$p || continue
  (cd $wd && VERIF_TIER=quick VERIF_SEED=1 VERIF_SHARD=0 VERIF_ROOT=/verif VERIF_FRAGMENT=$wd/fragment.json VERIF_WORKDIR=$wd TMPDIR=$wd \
     VERIF_REPO=/repo VERIF_CHECKS_PCT=$pct VERIF_NO_EVIDENCE=1 ./t.test -test.timeout 900s -test.count 1 -test.coverprofile $out/$p.out > $out/$p.log 2>&1)
  echo "$p rc=$? $(tail -1 $out/$p.log)"
  rm -rf $wd
done
# merge: a block is covered if any profile covers it
python3 - <<'E'
import glob,collections
cov=collections.defaultdict(int); n={}
for f in glob.glob('/var/tmp/cov/c*.out'):
    for l in open(f):
        if l.startswith('mode:'): continue
        k,st,c=l.rsplit(' ',2)
        n[k]=int(st); cov[k]+=int(c)
with open('/var/tmp/cov/merged.out','w') as o:
    o.write('mode: set\n')
    for k in sorted(n): o.write('%s %d %d\n'%(k,n[k],1 if cov[k] else 0))
E
cd /repo && go tool cover -func=/var/tmp/cov/merged.out > $out/funcs.txt; tail -1 $out/funcs.txt
