#!/bin/bash
# usage: run_thorough.sh <seed> <props...>   (development aid; evidence goes to a scratch directory and the thorough copies
# are taken over into evidence/thorough/, so that evidence/CNN.json stays the one of the last quick run)
cd /verif
seed=$1; shift
for p in "$@"; do
  s=$(date +%s)
  VERIF_EVIDENCE_DIR=/var/tmp/ev-thorough VERIF_SEED=$seed python3 run/check.py $p --tier thorough > /var/tmp/thorough_$p.out 2>&1
  rc=$?
  echo "$p seed=$seed rc=$rc wall=$(( $(date +%s) - s ))s $(grep -c '^VIOLATION' /var/tmp/thorough_$p.out) violations" >> /var/tmp/thorough.log
  [ $rc -eq 0 ] && cp /var/tmp/ev-thorough/thorough/$p.json /verif/evidence/thorough/$p.json
done
