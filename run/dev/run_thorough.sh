#!/bin/bash
# usage: run_thorough.sh <seed> <props...>
cd /verif
seed=$1; shift
for p in "$@"; do
  s=$(date +%s)
  VERIF_SEED=$seed python3 run/check.py $p --tier thorough > /var/tmp/thorough_$p.out 2>&1
  rc=$?
  echo "$p seed=$seed rc=$rc wall=$(( $(date +%s) - s ))s $(grep -c '^VIOLATION' /var/tmp/thorough_$p.out) violations" >> /var/tmp/thorough.log
done
