#!/usr/bin/env python3
"""Regenerate the machine-derived blocks of DESIGN.md (between <!-- BEGIN:X --> / <!-- END:X --> markers)
from run/props.py, known_findings.json and seeded/*/meta.json, so that the document cannot drift from what is built."""
import glob, json, os, re, sys
sys.path.insert(0, os.path.dirname(__file__))
from props import PROPS

ROOT = "/verif"


def tests_of(pid):
    names = []
    for f in sorted(glob.glob(f"{ROOT}/harness/props/{pid.lower()}/*_test.go")):
        names += re.findall(r"^func (Test\w+)\(", open(f).read(), re.M)
    return names


def block_checks():
    out = []
    for pid in sorted(PROPS):
        p = PROPS[pid]
        out.append(f"**{pid}** — tests `{', '.join(tests_of(pid))}`"
                   f"{'; race-detector build' if p['race'] else ''}{'; process death = violation' if p['crash_is_violation'] else ''}; "
                   f"quick {p['quick']['shards']} process(es), thorough {p['thorough']['shards']} processes "
                   f"(timeouts {p['quick']['timeout']} / {p['thorough']['timeout']} s).  \n"
                   f"*Rule / oracle as run:* {p['rule']}  \n"
                   f"*Assumptions:* " + "; ".join(p["assumptions"]) + ".\n")
    return "\n".join(out)


def block_open():
    d = json.load(open(f"{ROOT}/known_findings.json"))
    out = ["| id | property | what fails | input class (defect model) | symptom matched |", "|---|---|---|---|---|"]
    for f in d["findings"]:
        if f.get("status") == "open":
            out.append("| %s | %s | %s | %s | %s |" % (f["id"], f["property"], f["what"].replace("|", "/"), f["input_class"].replace("|", "/"), f["symptom"].replace("|", "/")))
    return "\n".join(out)


def block_fixed():
    d = json.load(open(f"{ROOT}/known_findings.json"))
    out = []
    for e in d["fixed"]:
        out.append("* `" + e.replace("fixed: ", "") + "`")
    return f"{len(d['fixed'])} repaired defects (one `fix:` commit each in /repo):\n\n" + "\n".join(out)


def block_mutants():
    out = ["| seeded change | property | what it changes (first sentence) | detected by |", "|---|---|---|---|"]
    n = 0
    for mf in sorted(glob.glob(f"{ROOT}/seeded/*/meta.json")):
        m = json.load(open(mf))
        what = (m.get("what") or "").replace("\n", " ").replace("|", "/")
        first = re.split(r"(?<=[.;:])\s", what, 1)[0][:260]
        out.append("| %s | %s | %s | %s |" % (m["id"], m["property"], first, (m.get("detected_by") or "").replace("|", "/")))
        n += 1
    note = ""
    try:
        det = json.load(open(f"{ROOT}/seeded/DETECTION.json"))
        ok = sum(1 for v in det.values() if v.get("detected"))
        heads = sorted({v.get("repo_head") for v in det.values() if v.get("repo_head")})
        missed = sorted(k for k, v in det.items() if not v.get("detected"))
        note = (f" Detection was re-checked after the extensions of the checks (`run/recheck_detection.py`: apply, run the "
                f"quick tier at VERIF_SEED=1, restore): {ok} of {len(det)} reported a violation (/repo at {', '.join(heads)}; result in seeded/DETECTION.json)."
                + (f" Not reported by a quick check: {', '.join(missed)} (thorough tier only, or not detected at all: see the last column)." if missed else ""))
    except Exception:
        pass
    return f"{n} seeded changes kept under /verif/seeded (each: patch.diff, demo_test.go.txt, meta.json).{note}\n\n" + "\n".join(out)


BLOCKS = {"CHECKS": block_checks, "OPEN": block_open, "FIXED": block_fixed, "MUTANTS": block_mutants}
p = f"{ROOT}/DESIGN.md"
s = open(p).read()
for k, fn in BLOCKS.items():
    pat = re.compile(r"(<!-- BEGIN:%s -->\n).*?(<!-- END:%s -->)" % (k, k), re.S)
    if not pat.search(s):
        print("marker missing:", k)
        continue
    s = pat.sub(lambda m: m.group(1) + fn() + "\n" + m.group(2), s)
open(p, "w").write(s)
print("DESIGN.md blocks regenerated")
