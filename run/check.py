#!/usr/bin/env python3
"""Driver for the livesim2 verification checks.

usage: check.py CNN [--tier quick|thorough] [--replay PATH] [--shards N] [--pct P]

exit 0  property held on everything explored (KNOWN-FINDING lines may be printed)
exit 1  violation; a line 'VIOLATION property=<id> replay=<path>' is printed
exit 2  inconclusive (build failure, time-out, worker death, vacuous run) - never a violation
"""
import argparse, hashlib, json, os, re, shutil, subprocess, sys, tempfile, time

ROOT = os.path.dirname(os.path.dirname(os.path.abspath(__file__)))
# development aid: sensitivity runs may build a copy of the harness whose go.mod points at a scratch worktree of /repo
# (run/dev/eval_mutants.sh); registered commands never set VERIF_HARNESS_DIR
HARNESS = os.environ.get("VERIF_HARNESS_DIR") or os.path.join(ROOT, "harness")
BUILD = os.path.join(ROOT, ".build")
REPO = "/repo"

sys.path.insert(0, os.path.join(ROOT, "run"))
from props import PROPS  # noqa: E402


def goenv():
    env = dict(os.environ)
    env.update(GOFLAGS="-mod=mod", GOPROXY="off", GOSUMDB="off", GOTOOLCHAIN="local", CGO_ENABLED=env.get("CGO_ENABLED", "1"))
    return env


def log(*a):
    print(*a, file=sys.stderr, flush=True)


def build(prop, spec):
    os.makedirs(BUILD, exist_ok=True)
    # one binary per invocation: concurrent runs of the same property (tiers, seeds) must not overwrite each other's executable
    out = os.path.join(BUILD, "%s%s.%d.test" % (prop.lower(), ".race" if spec.get("race") else "", os.getpid()))
    cmd = ["go", "test", "-c", "-tags", "verif", "-vet=off", "-o", out]
    if spec.get("race"):
        cmd.append("-race")
    cmd.append("./props/" + prop.lower())
    t0 = time.time()
    p = subprocess.run(cmd, cwd=HARNESS, env=goenv(), capture_output=True, text=True)
    if p.returncode != 0:
        log("BUILD FAILED:\n" + p.stdout + p.stderr)
        return None
    log("built %s in %.1fs" % (out, time.time() - t0))
    return out


def run_binary(binary, prop, env_extra, timeout, logpath, run_filter=None):
    env = goenv()
    env.update(env_extra)
    # the test's cwd is a scratch dir: rapid/testdata and temp files land there
    cwd = env_extra["VERIF_WORKDIR"]
    args = [binary, "-test.timeout", "%ds" % timeout, "-test.count", "1"]
    if run_filter:
        args += ["-test.run", run_filter]
    if os.environ.get("VERIF_VERBOSE"):
        args.append("-test.v")
    limit = PROPS[prop].get("rlimit_as_gb")

    def pre():
        if limit:  # address-space limit: a runaway allocation ends the process instead of the machine
            import resource
            resource.setrlimit(resource.RLIMIT_AS, (limit << 30, limit << 30))
    with open(logpath, "w") as lf:
        return subprocess.Popen(args, cwd=cwd, env=env, stdout=lf, stderr=subprocess.STDOUT, preexec_fn=pre)


def load_findings(prop):
    path = os.path.join(ROOT, "known_findings.json")
    if not os.path.exists(path):
        return []
    with open(path) as f:
        kf = json.load(f)
    return [x for x in kf.get("findings", []) if x.get("property") == prop and x.get("status") == "open"]


RACE_RE = re.compile(r"WARNING: DATA RACE")
FATAL_RE = re.compile(r"^(fatal error: .*|panic: .*)$", re.M)


def main():
    ap = argparse.ArgumentParser()
    ap.add_argument("prop")
    ap.add_argument("--tier", default=os.environ.get("VERIF_TIER", "quick"), choices=["quick", "thorough"])
    ap.add_argument("--replay")
    ap.add_argument("--shards", type=int)
    ap.add_argument("--pct", type=int, help="scale case counts (percent), for development")
    ap.add_argument("--keep", action="store_true", help="keep scratch dir")
    a = ap.parse_args()
    prop = a.prop.upper()
    if prop not in PROPS:
        log("unknown property", prop)
        return 2
    spec = PROPS[prop]
    seed = int(os.environ.get("VERIF_SEED", "1") or "1")
    t_start = time.time()

    binary = build(prop, spec)
    if binary is None:
        return 2

    scratch = tempfile.mkdtemp(prefix="verif-%s-" % prop.lower(), dir=os.environ.get("VERIF_TMP", "/var/tmp"))
    try:
        return drive(a, prop, spec, seed, binary, scratch, t_start)
    finally:
        if not a.keep:
            shutil.rmtree(scratch, ignore_errors=True)
        try:
            os.remove(binary)
        except OSError:
            pass


def base_env(a, prop, seed, scratch, shard, tag):
    wd = os.path.join(scratch, "%s-%d" % (tag, shard))
    os.makedirs(wd, exist_ok=True)
    env = dict(VERIF_TIER=a.tier, VERIF_SEED=str(seed), VERIF_SHARD=str(shard), VERIF_ROOT=ROOT,
               VERIF_FRAGMENT=os.path.join(wd, "fragment.json"), VERIF_WORKDIR=wd, TMPDIR=wd, VERIF_REPO=REPO)
    pct = a.pct or PROPS[prop].get(a.tier, {}).get("pct")
    if pct:
        env["VERIF_CHECKS_PCT"] = str(pct)
    return env, wd


def read_fragments(path):
    try:
        with open(path) as f:
            return json.load(f)
    except Exception:
        return []


FUZZ_FAIL_RE = re.compile(r"Failing input written to (testdata/fuzz/\S+)")
FUZZ_STAT_RE = re.compile(r"fuzz: elapsed: (\S+), execs: (\d+) .*new interesting: (\d+) \(total: (\d+)\)")


def build_fuzz(prop, target):
    os.makedirs(BUILD, exist_ok=True)
    out = os.path.join(BUILD, "%s.fuzz.%d.test" % (prop.lower(), os.getpid()))
    cmd = ["go", "test", "-c", "-tags", "verif", "-vet=off", "-fuzz=" + target, "-o", out, "./props/" + prop.lower()]
    p = subprocess.run(cmd, cwd=HARNESS, env=goenv(), capture_output=True, text=True)
    if p.returncode != 0:
        log("FUZZ BUILD FAILED:\n" + p.stdout + p.stderr)
        return None
    return out


def run_native_fuzz(prop, fz, scratch, notes, violations, inconclusive):
    """Coverage-guided campaign of the thorough tier. It cannot be pinned to VERIF_SEED: the saved input is the reproducible unit."""
    binary = build_fuzz(prop, fz["target"])
    if binary is None:
        inconclusive.append("native fuzz target %s does not build" % fz["target"])
        return
    wd = os.path.join(scratch, "fuzz")
    os.makedirs(wd, exist_ok=True)
    env = goenv()
    env.update(VERIF_ROOT=ROOT, VERIF_WORKDIR=wd, TMPDIR=wd)
    lp = os.path.join(wd, "log.txt")
    args = [binary, "-test.run", "^$", "-test.fuzz", "^" + fz["target"] + "$", "-test.fuzztime", "%ds" % fz["seconds"],
            "-test.fuzzcachedir", os.path.join(wd, "cache"), "-test.parallel", str(fz.get("workers", 16)), "-test.timeout", "%ds" % (fz["seconds"] + 300)]
    try:
        with open(lp, "w") as lf:
            rc = subprocess.run(args, cwd=wd, env=env, stdout=lf, stderr=subprocess.STDOUT, timeout=fz["seconds"] + 400).returncode
    except subprocess.TimeoutExpired:
        rc = -9
    out = open(lp, errors="replace").read()
    stats = FUZZ_STAT_RE.findall(out)
    if stats:
        el, execs, _, total = stats[-1]
        notes["native_fuzz"] = {"target": fz["target"], "elapsed": el, "executions": int(execs), "interesting_inputs": int(total), "workers": fz.get("workers", 16)}
    m = FUZZ_FAIL_RE.search(out)
    if m:
        src = os.path.join(wd, m.group(1))
        d = os.path.join(ROOT, "replays", prop)
        os.makedirs(d, exist_ok=True)
        dst = os.path.join(d, "fuzz-" + os.path.basename(src))
        shutil.copy(src, dst)
        msg = next((l.strip() for l in out.splitlines() if "VERIF-FAIL" in l), "native fuzz target failed")
        violations.append(("fuzz", msg, dst))
    elif rc != 0:
        inconclusive.append("native fuzz exit %d: %s" % (rc, out[-800:]))
    try:
        os.remove(binary)
    except OSError:
        pass


def replay_fuzz_input(prop, spec, path, scratch):
    fz = spec.get("fuzz")
    if not fz:
        log("property has no native fuzz target")
        return 2
    binary = build_fuzz(prop, fz["target"])
    if binary is None:
        return 2
    wd = os.path.join(scratch, "fuzzreplay")
    cdir = os.path.join(wd, "testdata", "fuzz", fz["target"])
    os.makedirs(cdir, exist_ok=True)
    name = os.path.basename(path)
    shutil.copy(path, os.path.join(cdir, name))
    env = goenv()
    env.update(VERIF_ROOT=ROOT, VERIF_WORKDIR=wd, TMPDIR=wd)
    p = subprocess.run([binary, "-test.run", "^%s$/^%s$" % (fz["target"], name), "-test.timeout", "120s"], cwd=wd, env=env, capture_output=True, text=True)
    os.remove(binary)
    if p.returncode != 0:
        sys.stdout.write((p.stdout + p.stderr)[-3000:])
        print("VIOLATION property=%s replay=%s" % (prop, os.path.abspath(path)))
        return 1
    print("replay passed: property=%s replay=%s" % (prop, path))
    return 0


def drive(a, prop, spec, seed, binary, scratch, t_start):
    tier = spec[a.tier]
    timeout = tier.get("timeout", 600)
    violations = []   # (kind, msg, replay_path)
    inconclusive = []

    # ---- replay mode -------------------------------------------------------------------
    if a.replay and open(a.replay, "rb").read(16).startswith(b"go test fuzz v1"):
        return replay_fuzz_input(prop, spec, a.replay, scratch)
    if a.replay:
        env, wd = base_env(a, prop, seed, scratch, 0, "replay")
        env["VERIF_REPLAY"] = os.path.abspath(a.replay)
        lp = os.path.join(wd, "log.txt")
        p = run_binary(binary, prop, env, timeout, lp)
        rc = p.wait()
        out = open(lp).read()
        frs = read_fragments(env["VERIF_FRAGMENT"])
        fail = next((fr["failure"] for fr in frs if fr.get("failure")), None)
        if fail or RACE_RE.search(out):
            sys.stdout.write(out[-4000:])
            print("VIOLATION property=%s replay=%s" % (prop, os.path.abspath(a.replay)))
            return 1
        if rc != 0:
            sys.stdout.write(out[-4000:])
            return 2
        print("replay passed: property=%s replay=%s" % (prop, a.replay))
        return 0

    # ---- known findings: replay each open finding's stored case ------------------------
    for i, kf in enumerate(load_findings(prop)):
        rp = kf.get("replay")
        if not rp:
            print("KNOWN-FINDING: property=%s %s (%s)" % (prop, kf["what"], kf["id"]))
            continue
        rp = os.path.join(ROOT, rp)
        env, wd = base_env(a, prop, seed, scratch, i, "kf")
        env["VERIF_REPLAY"] = rp
        env["VERIF_KF_REPLAY"] = kf["id"]
        lp = os.path.join(wd, "log.txt")
        p = run_binary(binary, prop, env, timeout, lp)
        p.wait()
        frs = read_fragments(env["VERIF_FRAGMENT"])
        still = any(fr.get("excluded", {}).get(kf["id"]) for fr in frs)
        out = open(lp).read()
        if not still and kf.get("symptom_regex") and re.search(kf["symptom_regex"], out):
            still = True
        if still:
            print("KNOWN-FINDING: property=%s %s (%s)" % (prop, kf["what"], kf["id"]))
        else:
            other = next((fr["failure"] for fr in frs if fr.get("failure")), None)
            if other:
                violations.append((other["kind"], "known-finding replay %s fails differently: %s" % (kf["id"], other["msg"]), rp))

    # ---- the campaign ---------------------------------------------------------------------
    shards = a.shards or tier.get("shards", 1)
    procs = []
    for s in range(shards):
        env, wd = base_env(a, prop, seed, scratch, s, "shard")
        lp = os.path.join(wd, "log.txt")
        procs.append((s, env, wd, lp, run_binary(binary, prop, env, timeout, lp)))
    frags = []
    for s, env, wd, lp, p in procs:
        try:
            rc = p.wait(timeout=timeout + 60)
        except subprocess.TimeoutExpired:
            p.kill()
            rc = -9
        out = open(lp, errors="replace").read()
        frs = read_fragments(env["VERIF_FRAGMENT"])
        frags += frs
        fail = [fr["failure"] for fr in frs if fr.get("failure")]
        for f in fail:
            violations.append((f["kind"], f["msg"], save_replay(prop, f)))
        if spec.get("race") and RACE_RE.search(out):
            violations.append(("data-race", first_race(out), save_log(prop, out, "race")))
        if rc != 0 and not fail and not (spec.get("race") and RACE_RE.search(out)):
            handled = False
            if spec.get("crash_is_violation"):
                m = FATAL_RE.search(out)
                if m:
                    jp = os.path.join(wd, "journal.json")
                    if os.path.exists(jp):
                        try:
                            jf = json.load(open(jp))
                            jf["msg"] = "process died: " + m.group(1) + "\n" + crash_site(out)
                            # the death is attributed to the journalled case only if that case kills a fresh process too
                            # (address space of a long campaign can run out without any single case being at fault)
                            renv, rwd = base_env(a, prop, seed, scratch, s, "confirm")
                            renv["VERIF_REPLAY"] = jp
                            rlp = os.path.join(rwd, "log.txt")
                            rrc = run_binary(binary, prop, renv, min(timeout, 300), rlp).wait()
                            rout = open(rlp, errors="replace").read()
                            if rrc != 0 or RACE_RE.search(rout):
                                violations.append(("crash", jf["msg"], save_replay(prop, jf)))
                            else:
                                inconclusive.append("shard %d died (%s) but its last journalled case passes in a fresh process: not attributed to a case" % (s, m.group(1)))
                            handled = True
                        except Exception:
                            pass
                    if not handled:
                        violations.append(("crash", m.group(1), save_log(prop, out, "crash")))
                        handled = True
            if not handled:
                inconclusive.append("shard %d exit %d: %s" % (s, rc, out[-1500:]))
        if os.environ.get("VERIF_VERBOSE"):
            sys.stderr.write(out[-3000:])

    extra_notes = {}
    if a.tier == "thorough" and spec.get("fuzz") and not violations:
        run_native_fuzz(prop, spec["fuzz"], scratch, extra_notes, violations, inconclusive)
    ok_evidence = write_evidence(prop, spec, a.tier, seed, frags, violations, inconclusive, time.time() - t_start, extra_notes)

    if violations:
        seen = set()
        for kind, msg, rp in violations:
            if rp in seen:
                continue
            seen.add(rp)
            print("violation kind=%s: %s" % (kind, msg[:1500]))
            print("VIOLATION property=%s replay=%s" % (prop, rp))
        return 1
    if inconclusive:
        for m in inconclusive:
            log("INCONCLUSIVE:", m)
        return 2
    if not ok_evidence:
        log("INCONCLUSIVE: vacuous run (see evidence file)")
        return 2
    print("OK property=%s tier=%s seed=%d wall=%.1fs" % (prop, a.tier, seed, time.time() - t_start))
    return 0


def crash_site(out):
    i = out.find("goroutine ")
    lines = [l for l in out[i:i + 3000].split("\n") if "livesim2" in l]
    return "\n".join(lines[:6])


def first_race(out):
    i = out.find("WARNING: DATA RACE")
    return out[i:i + 1800]


def save_replay(prop, failure):
    d = os.path.join(ROOT, "replays", prop)
    os.makedirs(d, exist_ok=True)
    body = json.dumps(failure, indent=1, sort_keys=True)
    h = hashlib.sha256(body.encode()).hexdigest()[:12]
    path = os.path.join(d, h + ".json")
    with open(path, "w") as f:
        f.write(body)
    return path


def save_log(prop, out, tag):
    d = os.path.join(ROOT, "replays", prop)
    os.makedirs(d, exist_ok=True)
    h = hashlib.sha256(out.encode(errors="replace")).hexdigest()[:12]
    path = os.path.join(d, "%s-%s.log" % (tag, h))
    with open(path, "w") as f:
        f.write(out[-200000:])
    return path


def write_evidence(prop, spec, tier, seed, frags, violations, inconclusive, wall, extra_notes=None):
    evals = sum(fr.get("evaluations", 0) for fr in frags)
    nontriv = set()
    classes, excluded, requested, ran = {}, {}, {}, {}
    samples, notes, missing = [], {}, set()
    for fr in frags:
        nontriv.update(fr.get("nontrivial") or [])
        for k, v in (fr.get("classes") or {}).items():
            classes[k] = classes.get(k, 0) + v
        for k, v in (fr.get("excluded") or {}).items():
            excluded[k] = excluded.get(k, 0) + v
        for k, v in (fr.get("requested") or {}).items():
            requested[k] = requested.get(k, 0) + v
        for k, v in (fr.get("ran") or {}).items():
            ran[k] = ran.get(k, 0) + v
        for s in fr.get("samples") or []:
            if len(samples) < 20:
                samples.append(s)
        for k, v in (fr.get("notes") or {}).items():
            if isinstance(v, (int, float)) and not isinstance(v, bool) and isinstance(notes.get(k, 0), (int, float)):
                notes[k] = notes.get(k, 0) + v
            else:
                notes[k] = v
    # essential classes are judged on the merged counters
    for fr in frags:
        for c in fr.get("missing_essential") or []:
            if classes.get(c, 0) == 0:
                missing.add(c)
    notes.update(extra_notes or {})
    ev = {
        "property_id": prop, "tier": tier, "seed": seed, "level": spec["level"],
        "coverage": {
            "evaluations": evals, "distinct_nontrivial": len(nontriv), "rule": spec["rule"],
            "samples": samples or ["(no case was generated)"], "classes": dict(sorted(classes.items())),
            "excluded_by_known_finding": excluded, "cases_requested": requested, "cases_run": ran,
            "missing_essential_classes": sorted(missing), "notes": notes, "processes": len(frags),
        },
        "assumptions": spec.get("assumptions", []),
        "wall_s": round(wall, 2), "violations": len({v[2] for v in violations}),
    }
    if inconclusive:
        ev["coverage"]["inconclusive"] = [m[:300] for m in inconclusive]
    # development aid: sensitivity runs against a deliberately broken tree (run/try_mutant.sh, run/recheck_detection.py) set
    # VERIF_EVIDENCE_DIR so that they do not overwrite the evidence of the real tree; registered commands never set it
    evroot = os.environ.get("VERIF_EVIDENCE_DIR") or os.path.join(ROOT, "evidence")
    os.makedirs(evroot, exist_ok=True)
    paths = [os.path.join(evroot, prop + ".json")]
    if tier == "thorough":  # also kept apart: evidence/<id>.json is rewritten by every run, whichever tier ran last
        os.makedirs(os.path.join(evroot, "thorough"), exist_ok=True)
        paths.append(os.path.join(evroot, "thorough", prop + ".json"))
    for path in paths:
        with open(path, "w") as f:
            json.dump(ev, f, indent=1, sort_keys=True)
            f.write("\n")
    return evals >= 1 and len(nontriv) >= 2 and not missing


if __name__ == "__main__":
    sys.exit(main())
