"""Per-property run configuration for check.py (counts live in the Go tests; here: processes, flags, texts)."""

EXPL = "exploration"

PROPS = {}


def prop(pid, rule, quick=None, thorough=None, race=False, crash_is_violation=False, assumptions=None, level=EXPL, rlimit_as_gb=None, fuzz=None):
    PROPS[pid] = dict(rule=rule, race=race, crash_is_violation=crash_is_violation, level=level, rlimit_as_gb=rlimit_as_gb, fuzz=fuzz,
                      quick=quick or dict(shards=1, timeout=300), thorough=thorough or dict(shards=16, timeout=1500),
                      assumptions=assumptions or [])


COMMON = ["Go toolchain, rapid v1.3.0 and mp4ff (used for independent parsing) are trusted",
          "instants are limited to years 1970..2100; assets are re-cuts of the bundled media"]

prop("C20",
     rule="(1) rapid-generated operation sequences Inc/Count/EndTime with time steps clustered around the interval boundary "
          "(-2..+2 ns, multiples; also stamps slightly before the previous one) over 1-5 addresses (IPv4/IPv6/garbage) and 0-3 white-list CIDR blocks, judged against a map-per-interval "
          "reference model; (2) the limiter middleware driven by 2-12 goroutines (RemoteAddr and X-Forwarded-For), judged by the per-address "
          "header-counter multiset {1..k}, status and pass-on; (3) readers of Count/EndTime and /reqcount against a writer that restarts the "
          "interval, under the race detector; (4) the real server with a quota: 1-3 addresses (direct and forwarded) alternating between /livesim2 and "
          "/vod share one quota and one counter; in the roll-over test (2-16 requests at once right after the interval elapsed, with and without a log file) every call returns within 15 s. Non-trivial = a sequence crossing >=1 interval boundary with >=2 addresses and one over quota, "
          "a concurrent middleware case with >=2 addresses exceeding the quota, or a race round; distinct by hash of the case.",
     race=True, quick=dict(shards=1, timeout=300), thorough=dict(shards=8, timeout=900, pct=1500),
     assumptions=COMMON + ["the interval restarts at the first request after it elapsed (documented by ResetTime/EndTime); the single instant "
                           "'exactly one interval after the restart' is stepped over because the statement does not decide it",
                           "schedules of concurrent requests are sampled by the Go scheduler, not enumerated"])

prop("C04",
     rule="rapid draws (asset: bundled or generated layout; representation incl. audio/text/image; addressing Number/Time/Timeline-Number; "
          "start, startNumber, tsbd 0..48h, ato in {0, fractions, > segment, inf}; live index n right after start / around loop wraps / "
          "year-2026 / year-2090 distance) and a sorted sweep of 10-30 instants placed at A_n, A_n+tsbd, A_n+tsbd+10s, AST with offsets "
          "0, +-1, +-2 ms and up to +-1 segment. Oracle: status from the integer reference model (425 before A_n, 200 on [A_n, A_n+tsbd], "
          "410 one hour after at the latest), monotone 425*200*410*, 425 body = remaining ms; 404 for number<startNumber, unknown "
          "representation, unknown asset. A sixth of the cases carries timeoffset_ (+-1 ms .. 2 s, fractional): the request is then made "
          "that much earlier / later on the wall clock and must behave as at the listed instant. "
          "Non-trivial = a sweep that observed >= 2 different phases; distinct by hash of the case.",
     quick=dict(shards=2, timeout=300), thorough=dict(shards=16, timeout=1500, pct=350),
     assumptions=COMMON + ["instants within 0.01 ms of a breakpoint that is not a whole second accept both neighbouring answers (float64 seconds in the code)",
                           "'gone' is required one hour after A_n+tsbd at the latest; the exact 10 s margin is not asserted"])

prop("C01",
     rule="rapid draws (asset: bundled or generated layout with 1-6 segments, uniform/alternating/irregular durations, 9 clocks incl. 1001-based, "
          "1-2 fragments per segment, video-only layouts whose first sample has a decode time other than 0; representation video / stpp text (plain and image subtitles) / thumbnails; start, startNumber; live index n "
          "right after start, around loop wraps, many wraps, year-2026 and year-2090 distance, near number 2^32). For each case the segment is "
          "fetched by Number, by Time and by Timeline-Number and parsed independently: sequence number, per-fragment tfdt = VoD tfdt + w*L, full "
          "sample list incl. payload located through trun.data_offset, sidx, byte-identical thumbnails, TTML timestamps moved by round(offset), "
          "identical bytes for all three addressing modes, and segment n+1 starting where n ends. A third of the generated layouts carries @codecs on the AdaptationSet instead of the Representation. Non-trivial = w>=1, tfdt>=2^32, a wrap pair, "
          "or start/startNumber != 0; distinct by hash of the case.",
     quick=dict(shards=2, timeout=300), thorough=dict(shards=16, timeout=1500, pct=400), assumptions=COMMON)

prop("C03",
     rule="rapid draws (asset with audio: bundled, or generated layout with AAC-1024 / AC-3-1536 frames, audio grid following the video grid, "
          "fixed independent grid or one single audio segment, audio loop equal / 1-3, 5 or 9 frames shorter (a whole short segment may lie in the padded tail) / 1-3 frames longer than the video loop, "
          "9 video clocks incl. 1001-based; addressing Number/Time/Timeline-Number; start, startNumber; live index n in the regimes first / wrap / "
          "many wraps / year-2026 / year-2090). Oracle: independent frame model aS=ceilF(start_n), aE=ceilF(end_n), frame at T is VoD frame "
          "(T-ceilF(wL))/F or the last VoD frame when past the VoD audio; payload comparison with the VoD frames; n+1 abuts; Number==Time bytes; "
          "the MPD's audio SegmentTimeline equals the model for every listed entry. Half of the generated layouts carry a second audio adaptation "
          "set in the other codec (AC-3 next to AAC or vice versa: another frame duration), either of which may be the one under test. "
          "Non-trivial = segment adjacent to a wrap, with padding, or "
          "whose frames span two VoD audio segments; distinct by hash of the case.",
     quick=dict(shards=2, timeout=300), thorough=dict(shards=16, timeout=1500, pct=350), assumptions=COMMON)

prop("C02",
     rule="rapid draws (asset bundled/generated incl. text and thumbnail adaptation sets, MPD name, type Number/Timeline-Time/Timeline-Number, "
          "start, tsbd, startNumber, ato, optional generated stpp/wvtt subtitles) and an instant placed at an availability breakpoint A_n, at a "
          "window-start crossing, inside a segment or right after stream start (offsets 0,+-1,+-2 ms, +-1 segment; n right after start / around "
          "wraps / many wraps / 2026 / 2090). The MPD is parsed with encoding/xml; every adaptation set is expanded to its declared segments "
          "(explicit S entries, or implicit duration/startNumber/AST/tsbd/ato); up to 10 declared segments per representation are fetched at "
          "the same instant: 200 with the declared time/duration/number; the segment after the live edge: 425; timeline contiguous, newest "
          "entry = newest ended segment by the reference model, first entry within one segment of the window start; with an offset below a segment "
          "the newest thumbnail is also requested with chunkdur_ added (200, byte-identical). Non-trivial = an MPD "
          "declaring >= 2 segments; distinct by hash of the case.",
     quick=dict(shards=2, timeout=400), thorough=dict(shards=16, timeout=1500, pct=500),
     assumptions=COMMON + ["$Number$ templates on assets with non-constant durations are judged within the asset's duration variation, as the property states",
                           "single period only (multi-period is C06)"])

prop("C05",
     rule="rapid draws (asset bundled/generated incl. fractional-second and sub-second segments, MPD, type Number/Timeline-Time/Timeline-Number, "
          "start, tsbd, ato, optional periods-per-hour, optional stop time) and an ordered set of 2-24 instants placed on both sides of "
          "availability breakpoints, window-start crossings, across wraps and after the stop time. Relational oracle over the fetched MPDs: "
          "first/last listed never move back, live edge = newest ended segment at every instant, publishTime <= now, non-decreasing, equal to "
          "the availability instant of the newest listed segment (ms), equal publishTime => byte-identical documents, plain $Number$ single "
          "period => all documents identical (also with UTCTiming options such as utc_direct), after stop (also with periods) => static with duration stop-start, unchanging, publishTime not "
          "lower than before the stop. Non-trivial = a set whose "
          "instants are separated by >= 1 breakpoint (live edge differs); distinct by hash of the case.",
     quick=dict(shards=2, timeout=400), thorough=dict(shards=16, timeout=1500, pct=400),
     assumptions=COMMON + ["publishTime is compared at millisecond resolution (floor..ceil of the exact change instant)"])

prop("C06",
     rule="rapid draws (asset bundled or generated uniform layout incl. text/thumbnail sets, MPD, type Number/Timeline-Time/Timeline-Number, "
          "tsbd, ato, startNumber, continuous on/off, periods-per-hour from all 1..3600 values compatible with the segment duration plus "
          "incompatible ones) and an instant at a period boundary, at boundary+tsbd, at a loop wrap or inside a period (offsets 0,+-1,+-2 ms). "
          "The multi-period MPD and the single-period MPD of the same instant are parsed: periods tile k*P with ids P<k>, PTO = k*P*timescale, "
          "every single-period segment starting at or after the first period start appears exactly once in the period containing its start "
          "with the same time/duration/number, no extra segments, per-period URLs return the same bytes, continuity signalled iff requested, "
          "incompatible values rejected. Optionally a stop time ahead of, shortly before or long before the instant (the static MPD must still "
          "consist of the tiles P<k> up to the one containing the stop time, mapped against the single-period MPD with the same stop time), "
          "and continuous_1 written before or after periods_N; a quarter of the cases carries generated subtitle sets (stpp, wvtt or both), which must be split like every other set. "
          "Non-trivial = an MPD with >= 2 periods of which >= 2 non-empty; distinct by hash of the case.",
     quick=dict(shards=2, timeout=400), thorough=dict(shards=16, timeout=1500, pct=400),
     assumptions=COMMON + ["start_ = 0 (the statement gives period starts in wall-clock terms); tsbd >= 2 segment durations"])

prop("C18",
     rule="rapid draws a byte stream (optional init: bundled video/audio init or synthetic ftyp+moov; the bundled 3_chunked.m4s; 0-5 synthetic "
          "chunks of optional styp/prft/emsg/sidx/free + moof + mdat whose payloads contain the byte strings 'moov'/'mdat'; optional trailing "
          "bytes, truncation point, corrupted size field 0..7 / +-delta / 2^16..2^24), a read partition (1 byte at a time, small, mixed, all at "
          "once; last data with or without io.EOF), an initial buffer 0..64 KiB, and optionally a read error position or a failing callback. "
          "Oracle: a model parser written from the statement walks the boxes of the whole slice: concatenation = input, one callback per "
          "complete mdat, trailing bytes at EOF, init flag = top-level moov header seen, Start = chunk offset; injected errors returned (also a read error that is reported once, after which the reader would go on; that comes together with the last bytes before it; that wraps io.EOF); "
          "termination within 20 s; bounded buffer growth for well-formed streams. Non-trivial = stream with >= 2 callbacks read with a read "
          "boundary inside a box header; distinct by hash of the case.",
     quick=dict(shards=2, timeout=300), thorough=dict(shards=16, timeout=1500, pct=600), fuzz=dict(target="FuzzC18", seconds=150, workers=16),
     assumptions=COMMON + ["declared box sizes above 16 MiB are not generated in-process (allocation from a 4-byte field, see DESIGN)",
                           "a box with size < 8 must make Parse terminate with an error or with everything delivered"])

prop("C14",
     rule="(1) status codes (video, audio and thumbnail representations): rapid draws 1-3 simultaneous patterns (cycle 1 s .. 12 segment durations incl. cycles shorter than / not divisible "
          "by the segment duration, rsq 0..5, code 400..599, rep filter = own id / other id / * / none), asset bundled or generated, video or "
          "audio representation, addressing Number/Time/Timeline-Number, start, startNumber; all segments over >= 4 cycles (also far from the "
          "start) are requested: exactly the code for the rsq-th segment starting in its cycle, otherwise a response byte-identical to the one "
          "without the parameter. (2) traffic (2 s, 8 s and the flat-layout bbb asset): 1-3 BaseURL patterns of up to 4 u/d/s/h intervals of 1-20 s: StateAt vs an own cyclic expansion "
          "for every second of 3 cycles (near 0 and near 1.7e9), MPD offers one BaseURL per pattern, HTTP: up = plain answer, down = 404 "
          "(slow/hang sampled in the thorough tier with a one-sided elapsed-time bound). A third of the status-code cases carries an "
          "availabilityTimeOffset from a quarter of a segment to more than two segments (the schedule is counted on the media timeline and must not move); a third of the 2/6/8 s cases is requested in chunked low-latency mode. "
          "Non-trivial = a status-code sweep with >= 1 hit and "
          ">= 1 miss in a cycle k >= 1, or a traffic case with >= 2 BaseURLs; distinct by hash of the case.",
     quick=dict(shards=2, timeout=400), thorough=dict(shards=16, timeout=1500, pct=400), assumptions=COMMON)

prop("C13",
     rule="(1) library: rapid draws contiguous segment grids (6 timescales, 16 segment durations 0.5..10 s incl. 1.5/1.92/2.002/3.84 s and "
          "alternating pairs, grid phase aligned / with a boundary exactly on the announce instant / random, minutes 0..2.9e7 incl. both sides "
          "of the 33-bit PTS wrap at minute 1590, N in 1..3) covering 2-4 minutes: every scheduled splice has exactly one carrier whose closed "
          "interval contains splice-7 s, no unscheduled events; each emsg: id, presentation time, duration and an own parse of the "
          "splice_info_section (pts mod 2^33, break duration, out_of_network, CRC-32/MPEG-2). (2) HTTP: bundled/generated assets, all video "
          "segments over 3 minutes with scte35_N: same oracle, a third of the 2/6/8 s cases in chunked low-latency delivery; no emsg in audio or subtitle (stpp) segments, bundled and generated; InbandEventStream on video only, in every Period of the multi-period MPD as well (periods_60 on the 2 s and 6 s assets); N outside 1..3 rejected "
          "with 4xx. Non-trivial = a case in which a segment spans a minute start or the announce instant equals a segment boundary.",
     quick=dict(shards=2, timeout=400), thorough=dict(shards=16, timeout=1500, pct=300), assumptions=COMMON)

prop("C12",
     rule="rapid draws (asset whose video boundaries are whole ms: bundled incl. the 2.002 s asset and alternating 4/8 s, or generated layouts; "
          "stpp or wvtt; 1-3 languages; cue duration default/1..5000 ms; region none/0/1; addressing Number/Time/Timeline-Number; start, "
          "startNumber; live index n in the regimes first / wrap / many wraps / 2026 / 2090). The segment is parsed independently: number, "
          "tfdt and duration in ms = video segment; cues extracted from the TTML / vttc samples: one cue per UTC second that intersects the "
          "segment (none for a second whose cue is over before the segment starts), begin = max(second, segment start), end within both "
          "readings of 'configured duration, clipped', text = UTC second + language + number, ordered, non-overlapping, inside; wvtt samples "
          "tile the segment with vtte samples in the gaps; region; MPD: one text set per language mirroring the video timeline in ms, entry by entry with the same numbers; no cue of 0 ms (cue durations equal to the offset of the segment start into its second, +-1 ms, are drawn on purpose). "
          "Non-trivial = segment with >= 2 cues or a boundary off the whole second.",
     quick=dict(shards=2, timeout=400), thorough=dict(shards=16, timeout=1500, pct=400),
     assumptions=COMMON + ["assets whose video segment boundaries are not whole milliseconds are outside the domain (the subtitle track runs on a 1000 Hz timescale)"])

prop("C11",
     rule="(1) HTTP: rapid draws (asset bundled/generated incl. text and thumbnail sets, Timeline-Time or -Number, start, tsbd, ato, optional "
          "periods, optional timeoffset_, optional stop_ between the two instants (MPD turning static), patch ttl 1..600 s) and t1 < t2 with t2-t1 from 1 ms (same piece), one segment, a few segments, a loop wrap, around the "
          "ttl and beyond it; the PatchLocation advertised by MPD(t1) is requested at t2: 425 iff publishTime unchanged, 410 beyond ttl(+10 s), "
          "otherwise the patch (originalPublishTime/publishTime/mpdId checked) is applied with an independent RFC 5261 applier and the result "
          "compared canonically with MPD(t2); 410 is never accepted when t2-t1 itself is within the ttl; a quarter of the cases carries generated subtitle sets (stpp, wvtt or both kinds together). (2) library: MPDDiff on generated id-carrying MPD-like trees and an edit script (S appended / "
          "dropped at the start / repeat changed / inserted in the middle, attributes changed/added/removed, periods appended/dropped, "
          "adaptation sets and representations added/removed, descriptor values changed, elements without id (PatchLocation, UTCTiming) removed / added / changing their schemeIdUri, a leaf changing its text and gaining or losing an attribute at once): old+patch == new; panics are violations, "
          "rejections by the diff are counted. Non-trivial = a patch with >= 2 operations or one that both adds and removes.",
     quick=dict(shards=2, timeout=400), thorough=dict(shards=16, timeout=1500, pct=400), fuzz=dict(target="FuzzC11Trees", seconds=150, workers=16), assumptions=COMMON)

prop("C10",
     rule="rapid draws (encryptable asset: bundled AVC/AAC assets or generated layouts; video or audio representation incl. re-segmented audio; "
          "eccp_cenc, eccp_cbcs and both CPIX packages of the repository's DRM test configuration; addressing Number/Time/Timeline-Number; "
          "start, startNumber; live index over wraps / 2026 / 2090; whole or chunked delivery). Per case: MPD default_KID and scheme, "
          "tenc.default_KID and scheme of the served init, key for that kid from the licence endpoint (ClearKey) or from the CPIX file parsed "
          "independently, decryption of the served segment (every fragment) and sample-wise comparison with the clear segment of the same "
          "URL and instant; ciphertext must differ from the clear payload. Plus: an asset built from livesim2's own encrypted output is "
          "refused with eccp_cenc/eccp_cbcs (MPD and segments, Number and Time). Chunked cases use ato 3/4 + chunkdur 1/4 of the segment, or chunkdur alone, or a tiny offset. Besides the repository's two CPIX packages the server of the "
          "bundled assets is also run with three packages derived from the one-key test package (scheme cenc; cbcs and cenc without the "
          "optional explicitIV: such a package may be refused, but whatever is served must decrypt); generated layouts may declare avc3 video and may carry @codecs on the AdaptationSet. "
          "Non-trivial = a segment with protected payload that decrypted "
          "to the clear samples; distinct by hash of the case.",
     quick=dict(shards=2, timeout=400), thorough=dict(shards=16, timeout=1500, pct=800),
     assumptions=COMMON + ["mp4ff's DecryptInit/DecryptSegment are the decryptor (trusted third-party code, separate from the encrypt path)",
                           "CPIX: only the two packages of pkg/drm/testdata exist offline"])

prop("C09",
     rule="rapid draws (constant-duration asset: bundled 2/6/8 s or generated layouts, for paced cases with 200-600 ms segments; video or audio "
          "representation; addressing Number/Time/Timeline-Number; start, startNumber; ato from one sample short of the segment down to 5 % "
          "of it; chunkdur values; optional eccp_cenc/eccp_cbcs; request instant before the advertised availability time, between it and the "
          "segment end (paced, real time), or after the end). A recording ResponseWriter timestamps every flush. Oracle: body parses into the "
          "same samples (times, durations, flags, payload) as the whole-segment response, styp on the first chunk only, chunks contiguous "
          "with the segment's number, no chunk longer than segment duration - ato + one sample, with DRM a senc box with one entry per sample "
          "in every chunk, one flush per chunk (chunkdur_ written after or before ato_), no chunk flushed before "
          "its media end minus 2 ms (one-sided), request before the advertised availability time -> 425, and (unpaced cases) an extra request "
          "0..1500 ms after the advertised availability time, abandoned at its first bytes, is admitted (200). Non-trivial = a response with >= 2 "
          "chunks (paced: of which >= 1 had to wait); distinct by hash of the case.",
     quick=dict(shards=2, timeout=400), thorough=dict(shards=16, timeout=1500, pct=300),
     assumptions=COMMON + ["timing is judged one-sided (a chunk may be late, never early); no upper latency bound is asserted"])

prop("C15",
     rule="rapid draws a vod root (1-2 bundled assets, 0-2 generated layouts, 0-2 inadmissible layouts: loop not a whole number of ms, or two video "
          "representations disagreeing in duration), a separate or shared metadata root, 0-3 damages of cache files (absent, plain JSON instead "
          "of gzip, truncated gzip, garbage, valid JSON of the wrong schema, empty file, trailing junk) and three instants. Three servers are "
          "started: scanning, writing (twice: files must be byte-identical), cache-loaded. Every MPD (3 types), init, newest media segment of "
          "every representation (plus ClearKey init/segment) and /assets are compared between the scanning and the cache-loaded server: "
          "identical status/content-type/body, or 404 for an asset whose cache is damaged, or the server refuses to start; inadmissible assets "
          "are served by no server (incl. a non-ms loop described by a $Number$ MPD with @duration in seconds and no @timescale); the "
          "SegmentTimeline MPD of every served asset (incl. layouts whose raw files have a hole at the first segment boundary) is contiguous "
          "on both servers and its listed segments are served. Generated layouts may also carry a second MPD that describes the same "
          "representations with fewer segments (the first MPD defines them), and an audio init segment whose trex default sample duration "
          "disagrees with the tfhd defaults of the fragments, and @codecs on the AdaptationSet instead of the Representation. Non-trivial = a case with a damaged "
          "cache file or an inadmissible asset; distinct by hash of the case.",
     quick=dict(shards=4, timeout=400), thorough=dict(shards=16, timeout=1500, pct=500), assumptions=COMMON)

prop("C08",
     rule="rapid draws requests against a panic-transparent copy of the livesim2 router (every route found by chi.Walk mounted without middlewares; "
          "/debug, /metrics and the external /player proxy excluded): /livesim2 URLs with 1-2 hostile (key,value) pairs out of all URL keys x "
          "{empty, 0, -1, huge, 30 digits, non-numeric, float/int confusion, NaN, inf, 1e300, hex, spaces, percent escapes, non-ASCII digits} "
          "plus list-valued keys (utc, timesubs*, statuscode, traffic, drm, eccp, annexI), shuffled with benign parts, all asset / file / "
          "segment-number shapes, hostile nowMS/nowDate/publishTime, all methods; requests whose only peculiarity is an unknown asset, "
          "representation, number below startNumber, $Time$ that is no segment start, language or extension; /urlgen/*, POST licence bodies, "
          "/patch with hostile publishTime, /api create/info/step/delete with hostile JSON and ids, /vod, static and misc routes. Oracle: no "
          "panic (value and first livesim2 frame reported), returns within 10 s (re-run alone before it is called a hang), deliberate status, "
          "4xx with a message for malformed / documented out-of-range values, 404 for unknown assets and segments. Non-trivial = a request "
          "that got past URL parsing (status != 400); distinct by method+URL+body. Also: low-latency boundary requests (ato at/around the asset's "
          "segment duration with chunkdur), BaseURL indices up to and beyond the number of traffic patterns, option-like path parts after the asset "
          "name; a third of the requests is otherwise servable (2/6/8 s assets, newest segments by number or time, or the first segments of a "
          "stream that started 15 s ago) so that the hostile value reaches the segment code, incl. status-code cycles shorter than a segment; "
          "Annex I values with repeated keys and query strings carrying them fully, partly or more often; the /patch route in front of media, init, "
          "subtitle and thumbnail URLs, whole and chunked. Receiver part (TestC08Receiver): histories of 3-14 uploads "
          "to a fresh receiver: valid init/media segments of video/audio/text tracks on 1-2 channels, and the same with 1-3 mutations (box size "
          "fields set to 0,1,2,7,8,9,..,16 MiB, ~4 GiB or +-1..9; box types swapped incl. container/leaf confusion; truncation anywhere and inside "
          "headers; 32-bit payload fields set to hostile values; trailing bytes; duplicated / swapped boxes; bit flips), hostile paths, all "
          "methods, empty and random bodies, MPD uploads. Oracle: the handler returns within 10 s without panic with a deliberate status, the "
          "channel goroutine drains its queue (hook VerifQuiesce), the process survives, and a well-formed stream uploaded afterwards on a "
          "fresh channel is accepted and stored.",
     quick=dict(shards=2, timeout=400), thorough=dict(shards=16, timeout=1500, pct=200), fuzz=dict(target="FuzzC08Server", seconds=150, workers=16), crash_is_violation=True, rlimit_as_gb=16,
     assumptions=COMMON + ["traffic patterns are requested at instants in up/down states only (slow/hang sleep by design)",
                           "upload bodies: declared top-level box sizes between 16 MiB and the 32-bit limit are cut to 24 bits (the chunk parser allocates what a header declares, DESIGN O6); "
                           "declared table counts above 10^6 are cut to 10^6 (known finding KF-C08-rx-declared-counts, excluded by construction and counted); Content-Length is honest",
                           "the C08 processes run under a 16 GiB address-space limit so that a runaway allocation ends the process under test, not the machine"])

prop("C17",
     rule="rapid draws a channel of 1-4 tracks (master video, second video, audio, wvtt text rescaled to 1000 Hz), segment duration 1/2/3.84 s, "
          "timeShiftBufferDepth 4..300 s (windows smaller and larger than the run), startNr 0/1, Streams() or per-segment URLs, 1-12 segments "
          "per track in order / with gaps / with duplicates / shuffled / with one late track, merged into one interleaving by drawn choices; "
          "one track whose init segment arrives only after the channel has started; in-order schedules where every fourth segment is half as long; optionally a catch-up suffix of window+5 fresh consecutive numbers on every track. After every upload the hook VerifQuiesce gives a "
          "defined observation point and the invariant is evaluated: accepted upload stored under track/<seq> with the uploaded content "
          "(text: rescaled time), MPD file a complete document (also for a poller that reads it while the uploads go on), same contiguous range in every adaptation set, every listed number stored "
          "for every track with equal (t,d), every track represented, newest listed number never decreases, buffers/counters/storage within "
          "the window implied by tsbd, and after the catch-up the newest listed number is the last one. The thorough tier adds all 70 "
          "interleavings of 2 tracks x 4 segments. A quarter of the cases uploads every 2 s video segment as two chunks whose tfhd default sample durations differ. Renumbered channels (TestC17Renumbered): decode time = (number + K) x duration, K in {1,3,1000}, "
          "or with all times a constant off the duration grid (numbers as uploaded or shifted; the receiver moves the times onto the grid), "
          "video + audio (+ second video) uploaded in order, audio up to 1/8 segment before or after the video grid: every listed number is stored "
          "with the listed (t,d), is one of the uploaded segments, is listed for every track, and denotes intervals less than half a segment apart "
          "on all tracks. Non-trivial = a schedule where two tracks are >= 2 segments apart, or with a gap/duplicate (renumbered: >= 2 numbers judged).",
     quick=dict(shards=2, timeout=400), thorough=dict(shards=16, timeout=1500, pct=150), crash_is_violation=True,
     assumptions=COMMON + ["uploads are unshifted (sequence number = decode time / duration); the MediaLive-style renumbering path is not generated",
                           "the receiver's channel goroutine is observed through the build-tag hook verif_hooks.go (VerifQuiesce, VerifChannelState)"])

prop("C19",
     rule="rapid draws 1-4 channels x 2-8 tracks (video master, further video, audio, wvtt text), 2-6 segments per track, Streams() or per-segment "
          "URLs, with/without Basic auth (per channel or default credentials; channels absent from the configuration) and per-representation "
          "configuration (language, bitrate, ignored tracks; ignored channels); on channels with credentials, uploads without or with wrong "
          "credentials (a further track's init, forged media for track 0) arrive together with the legitimate ones and must be answered 401 and leave "
          "no trace; ignored tracks/channels are answered 200, not registered, not stored and not listed; channels on which one track's init "
          "segment arrives together with the media number that starts the channel (order-independent facts only); raw channels "
          "(receiveNrRawSegments: every upload 200 and stored under the track's running index). "
          "Per case a sequential round-robin reference run, then 2-6 "
          "concurrent runs on fresh receivers under the race detector: all first uploads (init segments) released by one barrier from separate "
          "goroutines, then per segment number all tracks of all channels at once (as the sender does); optionally channels whose decode times are "
          "shifted against their numbers, and a phase in which init segments are re-sent on the started channels together with media. Oracle: every "
          "concurrent phase ends within 20 s, no race report and no fatal "
          "(driver), every upload saw the same channel object and every track is registered (hook VerifChannelState), every 200-answered "
          "upload stored under its own track with its own bytes, the final MPD lists every track and, reduced to what must not depend on the "
          "arrival order (per representation: kind, language, timescale, numbers, (t,d)), equals the sequential run's and lists no other representation. Every case starts >= 2 tracks of "
          "a new channel simultaneously (non-trivial by construction); distinct by hash of the case.",
     race=True, crash_is_violation=True, quick=dict(shards=2, timeout=500), thorough=dict(shards=8, timeout=1500, pct=200),
     assumptions=COMMON + ["interleavings are sampled by the Go scheduler (barriers and repetition raise the odds); absence of races is not established"])

prop("C16",
     rule="rapid draws 1-3 concurrent step-mode sessions on one server (asset bundled or generated uniform layout; $Number$, SegmentTimeline-$Time$ or SegmentTimeline-$Number$ "
          "URL; optional generated stpp/wvtt subtitles; Streams() or per-segment URLs; with/without credentials; receivers answering 200, 201 or 204; optional duration of 1-4 "
          "segments; testNowMS near 1e4..1.7e12; normal or slow receiver) and a history of 3-14 REST operations (step, info, delete) over the "
          "sessions. Each session has its own recording httptest receiver. After every operation the request log of every session is "
          "judged: init segment first per representation (same handler, sample entry and timescale as the init segment livesim2 serves for it), DASH-IF-Ingest 1.1, credentials, CMAF extension and content type, exactly one more "
          "media segment per representation per effective step, numbers/times consecutive from the model's live edge + 1, each body "
          "byte-identical to livesim2's own response for that segment (the last one up to the lmsg brand), duration d => d/segDur segments "
          "with lmsg on the last, nothing after delete/finish, and every API call returns. Further session kinds: deleted right after "
          "creation (only init segments may ever arrive), startNumber 1/7, receivers answering 500 to every 2nd media upload (stream goes on, no "
          "retry) or 403 to an init (no media), URLs with a statuscode_ pattern (affected segments may be absent, the rest in order and "
          "faithful), 2.002 s and 1001-based segment durations, low-latency sessions (ato 3/4, chunkdur 1/4 of a 1.0-1.6 s segment, chunked "
          "transfer; also combined with statuscode_), an upload aborted by deleting the session, bursts of steps issued without waiting (uploads of one representation never overlap), and - thorough tier only - testpic_8s with two ~150 KiB chunks per segment, or four ~75 KiB chunks with the upload open for 6 s, towards a slow receiver. "
          "Wall-clock part (TestC16WallClock): sessions without testNowMS on generated layouts with 200-600 ms segments, duration 1-3 s, "
          "receiver answering at once or after 40/130/250 % of a segment duration (the sender falls behind and catches up): exactly duration/segDur "
          "media segments per representation arrive (nothing more within four further segment durations), consecutive, starting between the live edge at "
          "creation and at first arrival, none before its availability time, lmsg on the last one only, bodies as served. "
          "Receivers may also be slow on the init segments (150/300 % of a segment): the first media number then lies after the live edge of the moment the last init was answered. "
          "Concurrent creation (TestC16ConcurrentCreate): 2-8 sessions with receivers of their own are created at the same instant over the REST API: "
          "distinct ids, every receiver gets its init segments and exactly one segment per representation (the first after the live edge) for one step. "
          "Non-trivial = a history with >= 3 effective "
          "steps on a session with >= 2 representations (wall-clock: >= 2 segments judged).",
     quick=dict(shards=2, timeout=500), thorough=dict(shards=16, timeout=2400, pct=250), crash_is_violation=True,
     assumptions=COMMON + ["step mode (testNowMS) only: wall-clock pacing of the session loop is not exercised; chunked sessions are exercised with 1.0-1.6 s segments (each step is produced in real time)",
                           "a session with a duration is drawn only for assets whose representations share one segment grid (DESIGN O7)"])

prop("C07",
     rule="rapid draws an asset (bundled or generated), 1-3 instants, 1-3 option sets from a pool of 38 URL options (segment "
          "timeline, periods, DRM/ECCP, chunked, subtitles, SCTE-35, patch, ...) and a multiset of 6-30 requests (MPD, init, media of any "
          "representation around the live edge, generated subtitles, MPD patch, pages, ingest API calls); DRM options are drawn more often, and "
          "requests get sibling requests that differ in one related option (other CPIX package of the same scheme, other scheme, other timeline "
          "flavour, other tsbd/snr/start ...), so that an answer cached under an incomplete key shows as history dependence; the option pool has stop times between the drawn instants, so one URL is asked on both sides of its stop time. Oracle: the (status, "
          "content type, body hash) of every non-API request on a fresh instance in generated order is the reference; the same "
          "requests must give the same answer when repeated within that pass, on the long-running shared instance in a permuted order "
          "(twice), on an instance loaded from representation-data files, and when the multiset is served 1-3 times by 2-16 concurrent "
          "workers on both instances. The binary is built with the race detector; any race report or process death is a violation. "
          "Non-trivial = at least 4 distinct URLs of which at least 3 answered 200.",
     quick=dict(shards=4, timeout=600), thorough=dict(shards=16, timeout=1700, pct=150), race=True, crash_is_violation=True,
     assumptions=COMMON + ["interleavings are sampled by the Go scheduler (16 cores), not enumerated: absence of races is not established",
                           "requests carry an explicit nowMS; responses that read the wall clock are outside the compared set",
                           "response headers other than Content-Type are not compared"])
