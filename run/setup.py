#!/usr/bin/env python3
"""Offline setup: compile every check's test binary once (fills the Go build cache)."""
import os, subprocess, sys
ROOT = os.path.dirname(os.path.dirname(os.path.abspath(__file__)))
sys.path.insert(0, os.path.join(ROOT, "run"))
from props import PROPS
import check
ok = True
for pid, spec in sorted(PROPS.items()):
    if check.build(pid, spec) is None:
        ok = False
sys.exit(0 if ok else 1)
