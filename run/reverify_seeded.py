#!/usr/bin/env python3
"""Re-verify stored seeded mutants against /repo HEAD (after fix commits moved the code).

usage: reverify_seeded.py [<seeded id> ...]   (default: all)
For each: demo passes without the patch, patch applies, build ok, existing suite passes with the patch, demo fails with it.
Uses one scratch worktree under /tmp, removed at the end. Prints one line per mutant; exit 1 if any fails.
"""
import json, os, shutil, subprocess, sys, tempfile

env = dict(os.environ, GOFLAGS="-mod=mod", GOPROXY="off", GOSUMDB="off", GOTOOLCHAIN="local")
ids = sys.argv[1:] or sorted(os.listdir("/verif/seeded"))
wt = tempfile.mkdtemp(prefix="verifwt-", dir="/tmp")
os.rmdir(wt)
bad = 0


def sh(cmd, cwd):
    return subprocess.run(cmd, cwd=cwd, env=env, shell=True, capture_output=True, text=True)


try:
    subprocess.check_call(["git", "-C", "/repo", "worktree", "add", "-q", "--detach", wt, "HEAD"])
    for sid in ids:
        d = os.path.join("/verif/seeded", sid)
        meta = json.load(open(os.path.join(d, "meta.json")))
        demo_dir = meta.get("demo_dir", "cmd/livesim2/app")
        demo_dst = os.path.join(wt, demo_dir, "zz_demo_reverify_test.go")
        pkg = "./" + demo_dir
        txt = open(os.path.join(d, "demo_test.go.txt")).read()
        race = "-race " if any("-race" in v for v in meta.get("verified", [])) else ""
        res = []
        sh("git checkout -q -- . && git clean -fdq", wt)
        shutil.copy(os.path.join(d, "demo_test.go.txt"), demo_dst)
        res.append(("demo-clean", sh("go test %s-vet=off -count=1 -run 'Demo|demo' %s" % (race, pkg), wt).returncode == 0))
        os.remove(demo_dst)
        res.append(("applies", sh("git apply %s" % os.path.join(d, "patch.diff"), wt).returncode == 0))
        res.append(("build", sh("go build ./...", wt).returncode == 0))
        p = sh("go test -vet=off -count=1 ./...", wt)
        if p.returncode != 0:  # one retry: a few upstream tests are timing sensitive under load
            p = sh("go test -vet=off -count=1 ./...", wt)
        res.append(("suite", p.returncode == 0))
        shutil.copy(os.path.join(d, "demo_test.go.txt"), demo_dst)
        res.append(("demo-fails", sh("go test %s-vet=off -count=1 -run 'Demo|demo' %s" % (race, pkg), wt).returncode != 0))
        ok = all(v for _, v in res)
        bad += 0 if ok else 1
        print(("OK   " if ok else "FAIL ") + sid + ("" if ok else "  " + str(res)), flush=True)
finally:
    subprocess.call(["git", "-C", "/repo", "worktree", "remove", "--force", wt])
    shutil.rmtree(wt, ignore_errors=True)
sys.exit(1 if bad else 0)
