#!/usr/bin/env python3
"""Writes MANIFEST.json from run/props.py and run/manifest_texts.py (kept valid at all times)."""
import json, os, sys
ROOT = os.path.dirname(os.path.dirname(os.path.abspath(__file__)))
sys.path.insert(0, os.path.join(ROOT, "run"))
from props import PROPS
from manifest_texts import TEXTS, NOT_APPLICABLE, HOOK_COMMITS

checks = []
for pid in sorted(PROPS):
    t = TEXTS[pid]
    checks.append({
        "property_id": pid,
        "quick_cmd": "python3 run/check.py %s --tier quick" % pid,
        "thorough_cmd": "python3 run/check.py %s --tier thorough" % pid,
        "evidence_file": "/verif/evidence/%s.json" % pid,
        "replay_cmd_template": "python3 run/check.py %s --replay {path}" % pid,
        "engine": "rapid-harness",
        "level_claimed": {"category": PROPS[pid]["level"], "text": t["level_text"], "design_ref": t["design_ref"]},
        "level_note": t["level_note"],
        "technique": t["technique"],
    })
m = {
    "version": 1,
    "setup_cmd": "python3 run/setup.py",
    "hooks": {
        "guard": "verif",
        "enable": "go test -tags verif (harness module /verif/harness replaces the livesim2 module by /repo)",
        "baseline_off_cmd": "cd /repo && GOFLAGS=-mod=mod GOPROXY=off go test -vet=off -count=1 ./...",
        "source_commits": HOOK_COMMITS,
        "add_only": True,
    },
    "engines": [{"name": "rapid-harness", "path": "/verif/harness", "serves_properties": sorted(PROPS),
                 "kind_free_text": "Go test binaries (pgregory.net/rapid v1.3.0 property tests, stateful sequences, bounded enumeration, "
                                   "native go fuzzing in the thorough tier, race detector) driven by run/check.py"}],
    "checks": checks,
    "not_applicable": NOT_APPLICABLE,
    "notes": "Every check: exit 0 held / 1 violation (VIOLATION line with replay file) / 2 inconclusive. VERIF_SEED selects the rapid seeds.",
}
with open(os.path.join(ROOT, "MANIFEST.json"), "w") as f:
    json.dump(m, f, indent=1)
    f.write("\n")
print("MANIFEST.json: %d checks, %d not applicable" % (len(checks), len(NOT_APPLICABLE)))
