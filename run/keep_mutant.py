#!/usr/bin/env python3
"""Verify a sub-agent's mutant in a scratch worktree of /repo and store it under /verif/seeded/<id>/.

usage: keep_mutant.py <agent out dir> <mN> <PROP> <seeded id> [--detected-by "text"]
Verifies: patch applies to /repo HEAD; go build ok; full existing suite passes with the patch; demo test fails with the patch
and passes without it. Only then the mutant is kept.
"""
import json, os, shutil, subprocess, sys, tempfile

out, mn, prop, sid = sys.argv[1:5]
detected = sys.argv[6] if len(sys.argv) > 6 and sys.argv[5] == "--detected-by" else ""
env = dict(os.environ, GOFLAGS="-mod=mod", GOPROXY="off", GOSUMDB="off", GOTOOLCHAIN="local")
meta = json.load(open(os.path.join(out, mn + ".meta.json")))
demo_dir = meta.get("demo_dir", "cmd/livesim2/app")
wt = tempfile.mkdtemp(prefix="verifwt-", dir="/tmp")
os.rmdir(wt)
ran = []


def sh(cmd, cwd, ok_codes=(0,)):
    p = subprocess.run(cmd, cwd=cwd, env=env, shell=True, capture_output=True, text=True)
    ran.append("%s -> exit %d" % (cmd, p.returncode))
    return p


try:
    subprocess.check_call(["git", "-C", "/repo", "worktree", "add", "-q", "--detach", wt, "HEAD"])
    demo_name = "zz_demo_%s_test.go" % sid.lower().replace("-", "_")
    demo_dst = os.path.join(wt, demo_dir, demo_name)
    shutil.copy(os.path.join(out, mn + "_demo_test.go"), demo_dst)
    pkg = "./" + demo_dir
    race = "-race " if "race" in open(demo_dst).read().lower() and "go test -race" in json.dumps(meta) else ""
    p = sh("go test %s-vet=off -count=1 -run 'Demo|demo' %s" % (race, pkg), wt)
    if p.returncode != 0:
        print("demo fails WITHOUT the patch:\n", p.stdout[-2000:], p.stderr[-2000:]); sys.exit(1)
    os.remove(demo_dst)
    p = sh("git apply %s" % os.path.abspath(os.path.join(out, mn + ".patch.diff")), wt)
    if p.returncode != 0:
        print("patch does not apply:", p.stderr); sys.exit(1)
    p = sh("go build ./...", wt)
    if p.returncode != 0:
        print("build fails:", p.stderr[-2000:]); sys.exit(1)
    p = sh("go test -vet=off -count=1 ./...", wt)
    if p.returncode != 0:
        print("existing suite FAILS with the patch:\n", p.stdout[-3000:]); sys.exit(1)
    shutil.copy(os.path.join(out, mn + "_demo_test.go"), demo_dst)
    p = sh("go test %s-vet=off -count=1 -run 'Demo|demo' %s" % (race, pkg), wt)
    if p.returncode == 0:
        print("demo PASSES with the patch (not a demonstration)"); sys.exit(1)
    dst = os.path.join("/verif/seeded", sid)
    os.makedirs(dst, exist_ok=True)
    shutil.copy(os.path.join(out, mn + ".patch.diff"), os.path.join(dst, "patch.diff"))
    shutil.copy(os.path.join(out, mn + "_demo_test.go"), os.path.join(dst, "demo_test.go.txt"))
    meta_out = {"id": sid, "property": prop, "what": meta.get("what"), "needs": meta.get("needs"), "demo_dir": demo_dir,
                "origin": "fresh sub-agent given only the property text and a scratch worktree",
                "verified": ran, "detected_by": detected}
    json.dump(meta_out, open(os.path.join(dst, "meta.json"), "w"), indent=1)
    print("kept", sid)
finally:
    subprocess.call(["git", "-C", "/repo", "worktree", "remove", "--force", wt])
    shutil.rmtree(wt, ignore_errors=True)
