#!/usr/bin/env python3
"""Rewrites the 'fixed' list of known_findings.json from known/fixed_src.json with the current commit hashes of /repo
(matched by commit subject). Development-time only; never run by a check."""
import json, subprocess
src = json.load(open('/verif/known/fixed_src.json'))
log = subprocess.check_output(['git', '-C', '/repo', 'log', '--format=%h\t%s']).decode().strip().split('\n')
by_subj = {l.split('\t', 1)[1]: l.split('\t', 1)[0] for l in log}
d = json.load(open('/verif/known_findings.json'))
d['fixed'] = []
for s in src:
    h = by_subj.get(s['subject'])
    if not h:
        raise SystemExit("no commit with subject %r" % s['subject'])
    d['fixed'].append("fixed: property=%s %s %s" % (s['property'], h, s['what']))
json.dump(d, open('/verif/known_findings.json', 'w'), indent=1)
print("fixed entries:", len(d['fixed']))
