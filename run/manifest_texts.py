ALL = ["C%02d" % i for i in range(1, 21)]
HOOK_COMMITS = []

TEXTS = {
 "C20": dict(
  technique="rapid operation sequences vs reference model; concurrent middleware runs vs counter-multiset oracle; race detector",
  level_text="Exploration: thousands of generated Inc/Count/EndTime histories compared step by step with a map-per-interval model, "
             "concurrent middleware runs judged by an order-independent oracle, and reader/writer runs under the race detector. "
             "Interleavings are sampled, not enumerated, so absence of races is not established.",
  level_note="Trusted: Go race detector, net.ParseCIDR/ParseIP, the model in props/c20. Interval restart semantics taken from the exported ResetTime/EndTime.",
  design_ref="DESIGN.md §7 C20"),
}

_claimed = set(TEXTS)
NOT_APPLICABLE = [{"property_id": p, "reason": "check not built yet in this session (planned, see DESIGN.md §7); not a limitation of the technique"}
                  for p in ALL if p not in _claimed]
