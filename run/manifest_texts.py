ALL = ["C%02d" % i for i in range(1, 21)]
HOOK_COMMITS = ['562a32a23f1517adc0af0563a69faa71c969cde3']  # cmd/cmaf-ingest-receiver/app/verif_hooks.go (//go:build verif, add-only)

TEXTS = {
 "C20": dict(
  technique="rapid operation sequences vs reference model; concurrent middleware runs vs counter-multiset oracle; race detector",
  level_text="Exploration: thousands of generated Inc/Count/EndTime histories compared step by step with a map-per-interval model, "
             "concurrent middleware runs judged by an order-independent oracle, and reader/writer runs under the race detector. "
             "Interleavings are sampled, not enumerated, so absence of races is not established.",
  level_note="Trusted: Go race detector, net.ParseCIDR/ParseIP, the model in props/c20. Interval restart semantics taken from the exported ResetTime/EndTime.",
  design_ref="DESIGN.md §7 C20"),
}


def _t(technique, level_text, level_note, ref):
    return dict(technique=technique, level_text=level_text, level_note=level_note, design_ref=ref)

EXPL_NOTE = ("Exploration by generated-input search: holds on everything generated (counts and class histogram in the evidence file); "
             "never a proof of absence. ")
TRUST = "Trusted: Go toolchain, rapid, mp4ff as independent parser, encoding/xml, the harness's reference model (internal/refmodel, internal/vod)."

TEXTS.update({
 "C01": _t("rapid property test; differential against an integer reference model + VoD files; metamorphic (addressing modes, n/n+1)",
           EXPL_NOTE + "Each case parses the served segment independently and compares every sample (payload located via trun.data_offset), "
           "tfdt per fragment, numbers, sidx, TTML timestamps and the three addressing modes, over bundled and generated layouts, many wraps and 64-bit tfdt.",
           TRUST + " Instants up to year 2100; segment numbers below 2^32 (mfhd is 32 bit).", "DESIGN.md §7 C01"),
 "C02": _t("rapid property test; MPD parsed independently, declared segments fetched at the same instant; reference model for the live edge",
           EXPL_NOTE + "The MPD is expanded to the segments it declares (explicit timeline or implicit template) and each is requested at the same nowMS; "
           "live edge and window start are judged by the reference model on both sides of every breakpoint.",
           TRUST + " Instants within 1 ms of an availability instant that is not computed exactly accept both neighbours; one open known finding (KF-C02-float-boundary).",
           "DESIGN.md §7 C02"),
 "C03": _t("rapid property test; independent audio frame model (ceil to frame boundary, looped source, padding) with payload comparison",
           EXPL_NOTE + "Generated layouts vary codec frame size, audio grid and audio-vs-video loop length; every served frame is compared with the VoD frame the model names.",
           TRUST, "DESIGN.md §7 C03"),
 "C04": _t("rapid property test; sorted instant sweeps around A_n, A_n+tsbd, +10 s; integer reference model; monotonicity",
           EXPL_NOTE + "Sweeps of 10-30 instants with +-1/2 ms offsets around each breakpoint for video/audio/text/image and all addressing modes.",
           TRUST + " 'Gone' is only required one hour after A_n+tsbd (the exact 10 s margin is not asserted).", "DESIGN.md §7 C04"),
 "C05": _t("rapid property test; relational invariants over ordered sets of MPDs (monotonicity, publishTime <-> content)",
           EXPL_NOTE + "Ordered sets of instants across breakpoints, wraps, period boundaries and the stop time; documents compared byte-wise.",
           TRUST + " Two open known findings (window-start removal and period start do not move publishTime) are excused only with their exact symptom.",
           "DESIGN.md §7 C05"),
 "C06": _t("rapid property test; differential between the multi-period and the single-period MPD of the same instant (segment mapping, byte equality)",
           EXPL_NOTE + "All 3600 periods-per-hour values are in the generator's domain (compatible and incompatible), instants sit on period boundaries, window edges and wraps.",
           TRUST + " start_=0; one open known finding (KF-C06-ato-next-period).", "DESIGN.md §7 C06"),
 "C14": _t("rapid property tests; status-code schedule vs reference model over whole cycles (differential with the parameter-free response); traffic StateAt vs own cyclic expansion, HTTP up/down",
           EXPL_NOTE + "Every segment over >= 4 cycles is requested; a miss must be byte-identical to the plain response.",
           TRUST + " slow/hang states only in the thorough tier with one-sided timing.", "DESIGN.md §7 C14"),
 "C18": _t("rapid property test; model parser written from the statement; metamorphic over read partitions; fault injection (read/callback errors, truncation, corrupt sizes); thorough tier adds a native coverage-guided fuzz target (FuzzC18) with the same oracle",
           EXPL_NOTE + "Tens of thousands of streams x partitions per run; the reader position at each callback checks 'delivered as soon as complete'.",
           TRUST + " Declared box sizes above 16 MiB are not generated (allocation from a 4-byte field is noted in DESIGN).", "DESIGN.md §7 C18"),
 "C12": _t("rapid property test; cue validity predicate (both readings of the clipping rule) + expected per-second cue list; independent TTML/vttc parsing",
           EXPL_NOTE + "stpp and wvtt segments over bundled and generated assets with boundaries on and off the whole second, many wraps, start != 0.",
           TRUST + " Assets with whole-ms boundaries only; one open known finding (cue duration > 1000 ms).", "DESIGN.md §7 C12"),
 "C13": _t("rapid property tests; exactly-one-carrier model over contiguous segment grids; own splice_info_section parser with CRC-32/MPEG-2",
           EXPL_NOTE + "Library level over thousands of grids incl. the PTS wrap; HTTP level over bundled and generated assets for three consecutive minutes.",
           TRUST, "DESIGN.md §7 C13"),
 "C11": _t("rapid property tests; round trip old + served patch == new with an independent RFC 5261 applier and canonical XML comparison; generated tree pairs for MPDDiff; thorough tier adds coverage-guided fuzzing of the tree generator (FuzzC11Trees via rapid.MakeFuzz)",
           EXPL_NOTE + "HTTP pairs cover additions, removals, repeat-count changes, wraps, period changes, 425 and 410; thousands of generated id-carrying trees for the diff itself.",
           TRUST + " internal/xmlpatch is the harness's own applier; one open known finding (KF-C11-base-mismatch).", "DESIGN.md §7 C11"),
 "C10": _t("rapid property test; round trip MPD kid -> init kid -> licence/CPIX key -> decrypt -> clear segment (differential with the DRM-free response)",
           EXPL_NOTE + "ClearKey cenc/cbcs and both CPIX packages, video and re-segmented audio, whole and chunked delivery, bundled and generated assets; a pre-encrypted asset built from livesim2's own output must be refused.",
           TRUST + " mp4ff decrypts (third-party, separate from the encrypt call).", "DESIGN.md §7 C10"),
 "C09": _t("rapid property test; differential with the whole-segment response; recording ResponseWriter with one-sided timing oracle; real-time paced cases on sub-second generated assets",
           EXPL_NOTE + "Hundreds of unpaced and dozens of real-time paced responses per run, video and audio, with and without ClearKey encryption.",
           TRUST + " One-sided timing: lateness is never a failure (the server's late trailing chunk is noted in DESIGN, not asserted).", "DESIGN.md §7 C09"),
 "C15": _t("rapid property test; differential between a scanning, a writing and a cache-loaded server over generated vod roots with injected cache faults",
           EXPL_NOTE + "Each case builds a vod root (bundled + generated + inadmissible layouts), damages cache files in 7 ways and compares every response of the request set.",
           TRUST + " vod.Load (harness) names the request set; gzip determinism of the Go standard library.", "DESIGN.md §7 C15"),
 "C07": _t("rapid-generated request multisets (MPD, init, media, subtitles, patch, pages, ingest API) over a pool of 38 URL options; differential between a fresh instance, the long-running shared instance (permuted order, repeated), a cache-loaded instance and 2-16 concurrent workers; race-detector build",
           EXPL_NOTE + "Oracle: (status, content type, body hash) per (URL, nowMS) is identical everywhere; any race report or process death is a violation.",
           TRUST + " Interleavings are sampled by the Go scheduler on 16 cores, not enumerated: race freedom is evidenced, not established.", "DESIGN.md §7 C07"),
 "C08": _t("rapid hostile-request generation against a panic-transparent copy of the router (chi.Walk) and box-level mutation of uploads to the receiver (hook); validity predicate (no panic, terminates, deliberate status, 4xx/404 classes, process survives, service continues); thorough tier adds coverage-guided fuzzing of the request generator (FuzzC08Server via rapid.MakeFuzz)",
           EXPL_NOTE + "Tens of thousands of requests per run over every URL key x hostile value, singly and pairwise, all endpoints and methods; panics are reported with value and first livesim2 frame.",
           TRUST + " /debug, /metrics and the external /player proxy are excluded; upload bodies: declared sizes 16 MiB..4 GiB and table counts above 10^6 are cut (known finding KF-C08-rx-declared-counts); processes run under a 16 GiB address-space limit.", "DESIGN.md §7 C08, §13, §14.2"),
 "C17": _t("rapid-generated upload interleavings with an invariant evaluated after every upload (hook VerifQuiesce as observation point); bounded enumeration of all merges for 2x4 in the thorough tier",
           EXPL_NOTE + "Schedules in order, with gaps, duplicates, shuffled, late tracks, windows smaller and larger than the run, plus a catch-up suffix for bounded progress.",
           TRUST + " verif_hooks.go (build tag verif); histories with uploaded numbers kept, plus in-order renumbered channels (TestC17Renumbered); two open known findings (stragglers, fast track deletes listed segments).", "DESIGN.md §7 C17"),
 "C16": _t("rapid-generated ingest-session configurations and REST operation histories (step/info/delete, deletion during the init phase) against scripted recording receivers; differential with livesim2's own GET responses and the reference live-edge model",
           EXPL_NOTE + "The request log of every session is judged after every operation (order, numbering, headers, byte equality, lmsg, termination).",
           TRUST + " Step mode for the histories (incl. chunked low-latency upload and failing receivers); wall-clock pacing and concurrent creation of sessions are decided by two further generated tests on short sessions.", "DESIGN.md §7 C16"),
 "C19": _t("rapid-generated channel/track sets uploaded concurrently (barriers) on fresh receivers under the race detector; differential with a sequential order of the same uploads; repeated-interleaving stress",
           EXPL_NOTE + "Race detector plus state oracles (one channel object, all tracks registered, master track, stored bytes, order-independent part of the final MPD).",
           TRUST + " Schedules are sampled by the Go scheduler, not owned: absence of races is not established.", "DESIGN.md §7 C19"),
})

_claimed = set(TEXTS)
NOT_APPLICABLE = [{"property_id": p, "reason": "check not built yet in this session (planned, see DESIGN.md §7); not a limitation of the technique"}
                  for p in ALL if p not in _claimed]
