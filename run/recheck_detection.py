#!/usr/bin/env python3
"""Apply every stored seeded change to /repo in turn, run the quick tier of the check(s) named in its meta.json
(default: the check of its property), restore /repo, and record whether a VIOLATION was reported.
Writes /verif/seeded/DETECTION.json. /repo must be clean and no other campaign may be building from it meanwhile."""
import glob, json, os, re, subprocess, sys, time

ids = sys.argv[1:] or sorted(os.path.basename(os.path.dirname(p)) for p in glob.glob("/verif/seeded/*/meta.json"))
res = {}
if subprocess.run(["git", "-C", "/repo", "diff", "--quiet"]).returncode != 0:
    sys.exit("/repo is dirty")
try:
    res = json.load(open("/verif/seeded/DETECTION.json"))
except Exception:
    res = {}
head = subprocess.check_output(["git", "-C", "/repo", "rev-parse", "--short", "HEAD"], text=True).strip()
for sid in ids:
    d = "/verif/seeded/" + sid
    meta = json.load(open(d + "/meta.json"))
    props = re.findall(r"\bC\d\d\b", meta.get("detected_by") or "") or [meta["property"]]
    props = list(dict.fromkeys([meta["property"]] + props))
    if subprocess.run(["git", "-C", "/repo", "apply", d + "/patch.diff"]).returncode != 0:
        res[sid] = {"applies": False}
        print(sid, "PATCH DOES NOT APPLY", flush=True)
        continue
    hit = {}
    try:
        for p in props:
            t0 = time.time()
            out = subprocess.run(["python3", "run/check.py", p], cwd="/verif", capture_output=True, text=True, env=dict(os.environ, VERIF_SEED="1", VERIF_EVIDENCE_DIR="/var/tmp/verif-evidence-scratch")).stdout
            hit[p] = len(re.findall(r"^VIOLATION ", out, re.M))
            if hit[p]:
                break
    finally:
        subprocess.run("git -C /repo checkout -- . && git -C /repo clean -fdq", shell=True)
    res[sid] = {"applies": True, "repo_head": head, "violations_by_check": hit, "detected": any(hit.values())}
    print(sid, hit, flush=True)
    json.dump(res, open("/verif/seeded/DETECTION.json", "w"), indent=1, sort_keys=True)
missed = [k for k, v in res.items() if not v.get("detected")]
print("missed:", missed)
