#!/usr/bin/env python3
"""Apply every stored seeded change to a scratch worktree of /repo (HEAD) in turn, run the quick tier of the check(s) named in
its meta.json (default: the check of its property) with a copy of the harness that is built against that worktree, and record
whether a VIOLATION was reported. Writes /verif/seeded/DETECTION.json. /repo itself is not touched, so other campaigns may go on."""
import glob, json, os, re, subprocess, sys, time

ids = sys.argv[1:] or sorted(os.path.basename(os.path.dirname(p)) for p in glob.glob("/verif/seeded/*/meta.json"))
res = {}
WT, H = "/tmp/wt/recheck", "/var/tmp/harness-recheck"
subprocess.run(["git", "-C", "/repo", "worktree", "remove", "--force", WT], capture_output=True)
subprocess.check_call(["git", "-C", "/repo", "worktree", "add", "-q", "--detach", WT, "HEAD"])
subprocess.check_call("rm -rf %s && cp -r /verif/harness %s && sed -i 's#=> /repo#=> %s#' %s/go.mod" % (H, H, WT, H), shell=True)
try:
    res = json.load(open("/verif/seeded/DETECTION.json"))
except Exception:
    res = {}
head = subprocess.check_output(["git", "-C", "/repo", "rev-parse", "--short", "HEAD"], text=True).strip()
for sid in ids:
    d = "/verif/seeded/" + sid
    meta = json.load(open(d + "/meta.json"))
    props = re.findall(r"\bC\d\d\b", meta.get("detected_by") or "") or [meta["property"]]
    props = list(dict.fromkeys([meta["property"]] + props))
    if subprocess.run(["git", "-C", WT, "apply", d + "/patch.diff"]).returncode != 0:
        res[sid] = {"applies": False}
        print(sid, "PATCH DOES NOT APPLY", flush=True)
        continue
    hit = {}
    try:
        for p in props:
            t0 = time.time()
            out = subprocess.run(["python3", "run/check.py", p], cwd="/verif", capture_output=True, text=True, env=dict(os.environ, VERIF_SEED="1", VERIF_EVIDENCE_DIR="/var/tmp/verif-evidence-scratch", VERIF_HARNESS_DIR=H)).stdout
            hit[p] = len(re.findall(r"^VIOLATION ", out, re.M))
            if hit[p]:
                break
    finally:
        subprocess.run("git -C %s checkout -q -- . && git -C %s clean -fdq" % (WT, WT), shell=True)
    res[sid] = {"applies": True, "repo_head": head, "violations_by_check": hit, "detected": any(hit.values())}
    print(sid, hit, flush=True)
    json.dump(res, open("/verif/seeded/DETECTION.json", "w"), indent=1, sort_keys=True)
missed = [k for k, v in res.items() if not v.get("detected")]
print("missed:", missed)
subprocess.run(["git", "-C", "/repo", "worktree", "remove", "--force", WT], capture_output=True)
subprocess.run(["rm", "-rf", H])
