#!/bin/bash
# usage: run/try_mutant.sh <patch.diff> <PROP> [tier]   -- applies the patch to /repo, runs the check, restores /repo
set -u
patch=$1; prop=$2; tier=${3:-quick}
cd /repo || exit 2
if ! git diff --quiet; then echo "repo dirty"; exit 2; fi
if ! git apply "$patch"; then echo "PATCH DOES NOT APPLY"; exit 3; fi
( cd /verif && VERIF_EVIDENCE_DIR=/var/tmp/verif-evidence-scratch VERIF_SEED=${VERIF_SEED:-1} python3 run/check.py "$prop" --tier "$tier" 2>&1 | grep -v "^KNOWN-FINDING" | cut -c1-700 | tail -${TAILN:-8} )
rc=${PIPESTATUS[0]}
git -C /repo checkout -- . && git -C /repo clean -fdq
exit 0
