// C14 — fault-injection parameters hit exactly the scheduled requests.
package c14

import (
	"bytes"
	"fmt"
	"strconv"
	"strings"
	"testing"
	"time"

	"github.com/Dash-Industry-Forum/livesim2/cmd/livesim2/app"
	"pgregory.net/rapid"
	"verifharness/internal/assetgen"
	"verifharness/internal/env"
	"verifharness/internal/gen"
	"verifharness/internal/hx"
	"verifharness/internal/ls"
	"verifharness/internal/mpdx"
	"verifharness/internal/refmodel"
)

// ---------------------------------------------------------------- status-code patterns

type Pattern struct {
	Cycle int    `json:"cycle"`
	Rsq   int    `json:"rsq"`
	Code  int    `json:"code"`
	Rep   string `json:"rep,omitempty"` // "" or "*" = all
}

type SCase struct {
	Target   env.Target   `json:"target"`
	Cfg      refmodel.Cfg `json:"cfg"`
	Patterns []Pattern    `json:"patterns"`
	RepID    string       `json:"rep"`
	N0       int64        `json:"n0"`
	Count    int          `json:"count"`
	// Chunked: low-latency delivery (ato = 3/4, chunkdur = 1/4 of the segment) of the same requests, made after the segment's end
	Chunked bool `json:"chunked,omitempty"`
}

func (c SCase) param() string {
	var ps []string
	for _, p := range c.Patterns {
		s := fmt.Sprintf("{cycle:%d,rsq:%d,code:%d", p.Cycle, p.Rsq, p.Code)
		if p.Rep != "" {
			s += ",rep:" + p.Rep
		}
		ps = append(ps, s+"}")
	}
	return "statuscode_[" + strings.Join(ps, ",") + "]"
}

func genS(t *rapid.T) (SCase, *env.Env) {
	tg := gen.Target(t, assetgen.Opts{Audio: []string{"", "aac"}, AllowThumb: true}, 55, []string{"testpic_2s", "testpic_6s", "testpic_8s", "testpic_alt_seg_dur_stl", "bbb_hevc_ac3_8s"})
	e, err := env.Get(tg)
	if err != nil {
		t.Fatalf("HARNESS: %v", err)
	}
	segMS := int64(e.Asset.LoopMS) / int64(len(e.Asset.Ref.Segs))
	// availabilityTimeOffset (from a quarter of a segment to more than a segment) does not move the schedule: cycles are counted on
	// the media timeline. Requests are made after the segment's end in any case.
	cfg := gen.Cfg(t, []string{"number", "time", "tlnr"}, segMS, rapid.IntRange(0, 2).Draw(t, "with-ato") == 0)
	if cfg.AtoInf() {
		cfg.AtoMS = 2*segMS + 500
	}
	cfg.TsbdS, cfg.HasTsbd = 60, false
	if tg.Layout != nil && tg.Layout.AvgSegMS() < 1000 {
		cfg.Extra = []string{"mup_1"}
	}
	rep := gen.RepOfKinds(t, e.Asset, "video", "video", "audio", "audio", "image") // (thumbnails are addressed by number in every MPD type)
	c := SCase{Target: tg, Cfg: cfg, RepID: rep.ID}
	if a := tg.Asset; (a == "testpic_2s" || a == "testpic_6s" || a == "testpic_8s") && rapid.IntRange(0, 2).Draw(t, "chunked") == 0 {
		c.Chunked = true
		c.Cfg.AtoMS = 0
	}
	np := rapid.IntRange(1, 3).Draw(t, "npat")
	maxCycle := int(segMS*12/1000) + 2
	for i := 0; i < np; i++ {
		p := Pattern{Cycle: rapid.IntRange(1, maxCycle).Draw(t, "cycle"), Rsq: rapid.IntRange(0, 5).Draw(t, "rsq"),
			Code: rapid.SampledFrom([]int{400, 404, 410, 429, 500, 503, 599}).Draw(t, "code")}
		switch rapid.IntRange(0, 4).Draw(t, "repf") {
		case 4:
			// an id that merely contains the requested representation's id names another representation: no match
			p.Rep = rapid.SampledFrom([]string{rep.ID + "0", "x" + rep.ID, rep.ID + "_hd"}).Draw(t, "superid")
		case 0:
			p.Rep = rep.ID
		case 1:
			p.Rep = "*"
		case 2:
			ids := e.Asset.RepIDs()
			p.Rep = rapid.SampledFrom(ids).Draw(t, "otherrep")
		}
		c.Patterns = append(c.Patterns, p)
	}
	tl := refmodel.NewTimeline(e.Asset, rep, cfg)
	// segments over >= 4 cycles of the longest pattern, starting in cycle 0 or far away
	far := rapid.SampledFrom([]int64{0, 0, 1, 7, 1000, 1_000_000}).Draw(t, "far")
	c.N0 = far * int64(rapid.IntRange(1, 9).Draw(t, "mult"))
	if lim := int64(1<<32) - 300000 - cfg.Snr; c.N0 > lim {
		c.N0 = lim
	}
	_ = tl
	longest := 1
	for _, p := range c.Patterns {
		if p.Cycle > longest {
			longest = p.Cycle
		}
	}
	c.Count = int(int64(longest)*4*1000/segMS) + 4
	if c.Count > 60 {
		c.Count = 60
	}
	return c, e
}

type sinfo struct {
	hits, misses int
	laterCycle   bool
}

func checkS(c SCase, e *env.Env) (*hx.Violation, sinfo) {
	var inf sinfo
	rep := e.Asset.Reps[c.RepID]
	if rep == nil {
		return hx.V("harness", "rep"), inf
	}
	noAto := c.Cfg
	noAto.AtoMS = 0
	tl := refmodel.NewTimeline(e.Asset, rep, noAto) // instants and indices without the offset
	parts := c.Cfg.Parts()
	if c.Chunked {
		segMS := int64(e.Asset.LoopMS) / int64(len(e.Asset.Ref.Segs))
		parts = append(parts, "ato_"+refmodel.FormatMS(segMS*3/4), "chunkdur_"+refmodel.FormatMS(segMS/4))
	}
	with := append(append([]string{}, parts...), c.param())
	ts := tl.TS()
	// model: index of each segment among the segments starting in its cycle
	idxInCycle := func(n int64, cycle int64) (k int64, idx int64) {
		st := tl.Start(n)
		k = st / (cycle * ts)
		idx = 0
		for m := n - 1; m >= 0 && tl.Start(m) >= k*cycle*ts; m-- {
			idx++
		}
		return k, idx
	}
	for i := 0; i < c.Count; i++ {
		n := c.N0 + int64(i)
		now := gen.CeilDivU(tl.AvailU(n), ts) + 1
		name := tl.SegName(rep, n)
		want := 0
		for _, p := range c.Patterns {
			if p.Rep != "" && p.Rep != "*" && !strings.Contains(rep.ID, p.Rep) {
				continue
			}
			k, idx := idxInCycle(n, int64(p.Cycle))
			if idx == int64(p.Rsq) {
				want = p.Code
				if k >= 1 {
					inf.laterCycle = true
				}
				break
			}
		}
		r := e.Srv.Get(ls.URL(with, e.Asset.Path, name, now))
		if want != 0 {
			inf.hits++
			if r.Code != want {
				return hx.V(classify(c), "%s n=%d (start %d/%d): expected the configured code %d, got %v", ls.URL(with, e.Asset.Path, name, now), n, tl.Start(n), ts, want, r), inf
			}
			continue
		}
		inf.misses++
		base := e.Srv.Get(ls.URL(parts, e.Asset.Path, name, now))
		if r.Code != base.Code || !bytes.Equal(r.Body, base.Body) {
			return hx.V(classify(c), "%s n=%d: not scheduled for a code, but the answer %v differs from the answer without the parameter %v", ls.URL(with, e.Asset.Path, name, now), n, r, base), inf
		}
		if base.Code != 200 {
			return hx.V("harness", "baseline request %s -> %v", ls.URL(parts, e.Asset.Path, name, now), base), inf
		}
	}
	return nil, inf
}

func classify(c SCase) string {
	return "status-code-schedule"
}

func TestC14StatusCodes(t *testing.T) {
	run := hx.Start(t, "C14")
	defer run.Finish()
	if run.Replaying() {
		if run.ReplayTest() != t.Name() {
			return
		}
		var c SCase
		run.ReplayCase(&c)
		e, err := env.Get(c.Target)
		if err != nil {
			t.Fatalf("HARNESS: %v", err)
		}
		if v, _ := checkS(c, e); v != nil {
			run.Fail(t, c, v)
		}
		return
	}
	run.Essential("sc:hit+miss-in-later-cycle", "sc:start!=0", "sc:snr!=0", "sc:audio")
	run.Rapid(t, 1, 250, 1500, func(rt *rapid.T) {
		c, e := genS(rt)
		v, inf := checkS(c, e)
		cls := []string{"sc", "sc:addr:" + c.Cfg.Type}
		if c.Cfg.StartS != 0 {
			cls = append(cls, "sc:start!=0")
		}
		if c.Cfg.AtoMS != 0 {
			cls = append(cls, "sc:ato!=0")
		}
		if c.Chunked {
			cls = append(cls, "sc:chunked-delivery")
		}
		if c.Cfg.Snr != 0 {
			cls = append(cls, "sc:snr!=0")
		}
		if e.Asset.Reps[c.RepID].ContentType == "audio" {
			cls = append(cls, "sc:audio")
		}
		if len(c.Patterns) > 1 {
			cls = append(cls, "sc:several-patterns")
		}
		if inf.hits >= 1 && inf.misses >= 1 && inf.laterCycle {
			cls = append(cls, "sc:hit+miss-in-later-cycle")
			run.NonTrivial(c)
		}
		run.Eval(cls...)
		run.Sample(map[string]any{"kind": "statuscode", "asset": c.Target.Name(), "rep": c.RepID, "url_parts": append(c.Cfg.Parts(), c.param()), "n0": c.N0, "segments": c.Count, "hits": inf.hits, "misses": inf.misses})
		if v != nil {
			if v.Kind == "harness" {
				rt.Fatalf("HARNESS: %s", v.Msg)
			}
			run.Fail(rt, c, v)
		}
	})
}

// ---------------------------------------------------------------- traffic patterns

type TCase struct {
	Patterns []string `json:"patterns"` // one per BaseURL, e.g. "u20d10"
	Asset    string   `json:"asset"`
	Type     string   `json:"type"`
	Seconds  []int64  `json:"seconds"` // wall-clock seconds to probe over HTTP
}

type itvl struct {
	state byte
	dur   int
}

func parsePattern(p string) []itvl {
	var out []itvl
	for i := 0; i < len(p); {
		st := p[i]
		i++
		j := i
		for j < len(p) && p[j] >= '0' && p[j] <= '9' {
			j++
		}
		d, _ := strconv.Atoi(p[i:j])
		out = append(out, itvl{st, d})
		i = j
	}
	return out
}

func stateAt(p string, sec int64) byte {
	its := parsePattern(p)
	tot := 0
	for _, it := range its {
		tot += it.dur
	}
	r := int(sec % int64(tot))
	for _, it := range its {
		if r < it.dur {
			return it.state
		}
		r -= it.dur
	}
	return '?'
}

func genT(t *rapid.T) TCase {
	nb := rapid.IntRange(1, 3).Draw(t, "nbase")
	c := TCase{Asset: rapid.SampledFrom([]string{"testpic_2s", "testpic_8s", "bbb_hevc_ac3_8s"}).Draw(t, "asset"), Type: rapid.SampledFrom([]string{"number", "time", "tlnr"}).Draw(t, "type")}
	longest := 0
	for b := 0; b < nb; b++ {
		n := rapid.IntRange(1, 4).Draw(t, "len")
		var sb strings.Builder
		tot := 0
		for i := 0; i < n; i++ {
			st := rapid.SampledFrom([]string{"u", "u", "d", "d", "s", "h"}).Draw(t, "state")
			d := rapid.IntRange(1, 20).Draw(t, "dur")
			sb.WriteString(st + strconv.Itoa(d))
			tot += d
		}
		if tot > longest {
			longest = tot
		}
		c.Patterns = append(c.Patterns, sb.String())
	}
	base := int64(rapid.SampledFrom([]int{100, 1000, 1_700_000_000}).Draw(t, "base"))
	k := rapid.IntRange(4, 14).Draw(t, "nsec")
	for i := 0; i < k; i++ {
		c.Seconds = append(c.Seconds, base+int64(rapid.IntRange(0, 3*longest).Draw(t, "sec")))
	}
	return c
}

var stateNr = map[byte]int{'u': 1, 'd': 2, 's': 3, 'h': 4}

func checkT(c TCase, slow bool) (*hx.Violation, int) {
	points := 0
	pattern := strings.Join(c.Patterns, ",")
	lis, err := app.CreateAllLossItvls(pattern)
	if err != nil || len(lis) != len(c.Patterns) {
		return hx.V("traffic-parse", "CreateAllLossItvls(%q): %v, %d patterns", pattern, err, len(lis)), 0
	}
	// library level: every second of three cycles
	for b, p := range c.Patterns {
		tot := 0
		for _, it := range parsePattern(p) {
			tot += it.dur
		}
		for sec := int64(0); sec < int64(3*tot); sec++ {
			for _, off := range []int64{0, 1_700_000_000 - 1_700_000_000%int64(tot)} {
				got := int(lis[b].StateAt(int(sec + off)))
				if want := stateNr[stateAt(p, sec+off)]; got != want {
					return hx.V("traffic-state", "pattern %q second %d: state %d, expected %d (%c)", p, sec+off, got, want, stateAt(p, sec+off)), points
				}
				points++
			}
		}
	}
	// HTTP level
	e, err := env.Get(env.Target{Asset: c.Asset})
	if err != nil {
		return hx.V("harness", "%v", err), points
	}
	cfg := refmodel.DefaultCfg()
	cfg.Type = c.Type
	cfg.TsbdS = 60
	parts := append(cfg.Parts(), "traffic_"+pattern)
	rep := e.Asset.Ref // the video representation (its files may lie in a directory of their own or directly in the asset directory)
	mpdName := ""
	for n := range e.Asset.MPDs {
		if mpdName == "" || n < mpdName {
			mpdName = n
		}
	}
	tl := refmodel.NewTimeline(e.Asset, rep, cfg)
	for i, sec := range c.Seconds {
		nowMS := sec*1000 + int64(i*137%1000)
		if i == 0 {
			// the live MPD, the multi-period MPD and the static MPD after a stop time all offer one BaseURL per pattern in every Period
			variants := [][]string{parts}
			if sec > 30 {
				variants = append(variants, append(append([]string{}, parts...), "stop_"+strconv.FormatInt(sec-10, 10)))
			}
			if c.Type != "number" && (int64(e.Asset.LoopMS)/int64(len(e.Asset.Ref.Segs))) <= 2000 {
				variants = append(variants, append(append([]string{}, parts...), "periods_60"))
			}
			for _, vp := range variants {
				mr := e.Srv.Get(ls.URL(vp, e.Asset.Path, mpdName, nowMS))
				if mr.Code != 200 {
					return hx.V("traffic-mpd", "MPD with %v -> %v", vp, mr), points
				}
				m, err := mpdx.Parse(mr.Body)
				if err != nil {
					return hx.V("traffic-mpd", "unparsable: %v", err), points
				}
				for _, per := range m.Periods {
					bu := per.BaseURLs
					if len(bu) != len(c.Patterns) {
						return hx.V("traffic-baseurls", "MPD (%v, type %s) offers %d BaseURLs for %d patterns in period %s: %v", vp, m.Type, len(bu), len(c.Patterns), per.ID, bu), points
					}
					for b := range bu {
						if strings.TrimSpace(bu[b]) != fmt.Sprintf("bu%d/", b) {
							return hx.V("traffic-baseurls", "BaseURL %d is %q", b, bu[b]), points
						}
					}
				}
			}
		}
		n, _ := tl.LastAvailable(nowMS)
		if n < 0 {
			continue
		}
		name := tl.SegName(rep, n)
		plain := e.Srv.Get(ls.URL(cfg.Parts(), e.Asset.Path, name, nowMS))
		for b, p := range c.Patterns {
			st := stateAt(p, nowMS/1000)
			if (st == 's' || st == 'h') && !slow {
				continue
			}
			url := ls.URL(parts, e.Asset.Path, fmt.Sprintf("bu%d/%s", b, name), nowMS)
			t0 := time.Now()
			r := e.Srv.Get(url)
			el := time.Since(t0)
			points++
			switch st {
			case 'u':
				if r.Code != plain.Code || !bytes.Equal(r.Body, plain.Body) {
					return hx.V("traffic-up", "%s: BaseURL is up at second %d but the answer %v differs from the plain answer %v", url, nowMS/1000, r, plain), points
				}
			case 'd':
				if r.Code != 404 {
					return hx.V("traffic-down", "%s: BaseURL is down at second %d, got %v", url, nowMS/1000, r), points
				}
			case 's':
				if el < 2*time.Second || r.Code != plain.Code {
					return hx.V("traffic-slow", "%s: slow state answered after %v with %d", url, el, r.Code), points
				}
			case 'h':
				if el < 10*time.Second || r.Code != 503 {
					return hx.V("traffic-hang", "%s: hang state answered after %v with %d", url, el, r.Code), points
				}
			}
		}
	}
	return nil, points
}

func TestC14Traffic(t *testing.T) {
	run := hx.Start(t, "C14")
	defer run.Finish()
	if run.Replaying() {
		if run.ReplayTest() != t.Name() {
			return
		}
		var c TCase
		run.ReplayCase(&c)
		if v, _ := checkT(c, false); v != nil {
			run.Fail(t, c, v)
		}
		return
	}
	slowBudget := run.Pick(0, 2)
	run.Rapid(t, 2, 250, 1500, func(rt *rapid.T) {
		c := genT(rt)
		slow := false
		if slowBudget > 0 && strings.ContainsAny(strings.Join(c.Patterns, ""), "s") && !strings.Contains(strings.Join(c.Patterns, ""), "h") && len(c.Seconds) <= 6 {
			slow = true
			slowBudget--
		}
		v, points := checkT(c, slow)
		run.Eval("traffic", fmt.Sprintf("traffic:baseurls=%d", len(c.Patterns)))
		run.Note("traffic_points", points)
		if len(c.Patterns) >= 2 {
			run.NonTrivial(c)
		}
		run.Sample(map[string]any{"kind": "traffic", "patterns": c.Patterns, "asset": c.Asset, "type": c.Type, "seconds": len(c.Seconds)})
		if v != nil {
			if v.Kind == "harness" {
				rt.Fatalf("HARNESS: %s", v.Msg)
			}
			run.Fail(rt, c, v)
		}
	})
}
