// C16, wall-clock part: sessions without testNowMS are paced by the real clock. Sub-second generated layouts keep a
// session of 1-3 s of stream time (2-15 segments) within a few seconds of wall time.
package c16

import (
	"bytes"
	"encoding/json"
	"fmt"
	"io"
	"net/http"
	"net/http/httptest"
	"regexp"
	"strings"
	"sync"
	"testing"
	"time"

	"github.com/Eyevinn/mp4ff/bits"
	"github.com/Eyevinn/mp4ff/mp4"
	"pgregory.net/rapid"
	"verifharness/internal/assetgen"
	"verifharness/internal/env"
	"verifharness/internal/gen"
	"verifharness/internal/hx"
	"verifharness/internal/ls"
	"verifharness/internal/mpdx"
	"verifharness/internal/refmodel"
)

type WallCase struct {
	Target   env.Target `json:"target"`
	Type     string     `json:"type"`       // number | time
	Duration int        `json:"duration_s"` // stream seconds to send
	// SlowPct: the receiver takes this many percent of a segment duration to answer a media upload (0 = at once;
	// above 100 the sender falls behind the live edge and has to catch up)
	SlowPct int  `json:"slow_pct"`
	Streams bool `json:"streams_urls"`
	// BackS: the stream started this many seconds before the session is created (keeps the numbers small)
	BackS int `json:"back_s"`
	// SlowInitPct: the receiver takes this many percent of a segment duration to answer an init upload, so the live edge
	// moves on while the init segments are being delivered (the media must start after the live edge of that moment)
	SlowInitPct int `json:"slow_init_pct,omitempty"`
}

type wput struct {
	path    string
	body    []byte
	atMS    int64 // wall clock when the request arrived
	doneMS  int64 // wall clock when it was answered
	aborted bool
}

type wrecv struct {
	mu    sync.Mutex
	puts      []wput
	delay     time.Duration
	initDelay time.Duration
}

func (r *wrecv) ServeHTTP(w http.ResponseWriter, req *http.Request) {
	at := time.Now().UnixMilli()
	body, err := io.ReadAll(req.Body)
	if isInit := bytes.Contains(body[:min(len(body), 64)], []byte("ftyp")); !isInit && r.delay > 0 {
		time.Sleep(r.delay)
	} else if isInit && r.initDelay > 0 {
		time.Sleep(r.initDelay)
	}
	r.mu.Lock()
	r.puts = append(r.puts, wput{path: req.URL.Path, body: body, atMS: at, doneMS: time.Now().UnixMilli(), aborted: err != nil})
	r.mu.Unlock()
	w.WriteHeader(200)
}

func (r *wrecv) snapshot() []wput {
	r.mu.Lock()
	defer r.mu.Unlock()
	return append([]wput{}, r.puts...)
}

func genWall(t *rapid.T) (WallCase, *env.Env) {
	l := assetgen.Gen(t, assetgen.Opts{Audio: []string{""}, Uniform: true, MinFrames: 5, MaxFrames: 15, MaxSegs: 3, Forms: []string{"timeline"},
		Clocks: []assetgen.Clock{{1000, 40}, {25000, 1000}, {90000, 3600}, {12800, 512}}})
	tg := env.Target{Layout: &l}
	e, err := env.Get(tg)
	if err != nil {
		t.Fatalf("HARNESS: %v", err)
	}
	c := WallCase{Target: tg, Type: rapid.SampledFrom([]string{"number", "time"}).Draw(t, "type"), Duration: rapid.IntRange(1, 3).Draw(t, "duration"),
		SlowPct: rapid.SampledFrom([]int{0, 0, 40, 130, 250}).Draw(t, "slow"), SlowInitPct: rapid.SampledFrom([]int{0, 0, 150, 300}).Draw(t, "slow-init"), Streams: rapid.Bool().Draw(t, "streams"), BackS: rapid.SampledFrom([]int{5, 30, 3000}).Draw(t, "back")}
	return c, e
}

type wallInfo struct {
	segments int
	behind   bool
}

func checkWall(c WallCase, e *env.Env) (*hx.Violation, wallInfo) {
	var inf wallInfo
	segMS := int64(e.Asset.LoopMS) / int64(len(e.Asset.Ref.Segs))
	total := int(int64(c.Duration) * 1000 / segMS)
	rc := &wrecv{delay: time.Duration(segMS*int64(c.SlowPct)/100) * time.Millisecond, initDelay: time.Duration(segMS*int64(c.SlowInitPct)/100) * time.Millisecond}
	srv := httptest.NewServer(rc)
	defer srv.Close()
	cfg := refmodel.DefaultCfg()
	cfg.Type = c.Type
	cfg.StartS, cfg.HasStart = time.Now().Unix()-int64(c.BackS), true
	cfg.Extra = []string{"mup_1"}
	parts := cfg.Parts()
	tl := refmodel.NewTimeline(e.Asset, e.Asset.Ref, cfg)
	var mpdName string
	for n := range e.Asset.MPDs {
		if mpdName == "" || n < mpdName {
			mpdName = n
		}
	}
	mr := e.Srv.Get(ls.URL(parts, e.Asset.Path, mpdName, time.Now().UnixMilli()))
	if mr.Code != 200 {
		return hx.V("harness", "MPD -> %v", mr), inf
	}
	m, err := mpdx.Parse(mr.Body)
	if err != nil {
		return hx.V("harness", "%v", err), inf
	}
	var reps []repInfo
	for _, as := range m.Periods[0].AS {
		for _, r := range as.Reps {
			reps = append(reps, repInfo{id: r.ID, ext: extOf[as.Kind()], mime: mimeOf[as.Kind()], rep: e.Asset.Reps[r.ID]})
		}
	}
	body := map[string]any{"destRoot": srv.URL, "destName": "dest", "livesimURL": "/livesim2/" + strings.Join(parts, "/") + "/" + e.Asset.Path + "/" + mpdName,
		"streamsURLs": c.Streams, "duration": c.Duration}
	jb, _ := json.Marshal(body)
	t0 := time.Now().UnixMilli()
	cr := e.Srv.Do("POST", "/api/cmaf-ingests", jb, map[string]string{"Content-Type": "application/json"})
	if cr.Code != 201 {
		return hx.V("create-status", "POST /api/cmaf-ingests %s -> %v", jb, cr), inf
	}
	var resp struct {
		ID string `json:"id"`
	}
	_ = json.Unmarshal(cr.Body, &resp)
	defer e.Srv.Do("DELETE", "/api/cmaf-ingests/"+resp.ID, nil, nil)
	want := len(reps) * (1 + total)
	// generous bound: stream time, plus the receiver's delay for every segment, plus 10 s
	deadline := time.Now().Add(time.Duration(c.Duration)*time.Second + time.Duration(total)*rc.delay + time.Duration(len(reps))*rc.initDelay + 10*time.Second)
	for time.Now().Before(deadline) && len(rc.snapshot()) < want {
		time.Sleep(5 * time.Millisecond)
	}
	// anything beyond the announced duration would arrive within a few segment durations
	time.Sleep(time.Duration(4*segMS)*time.Millisecond + 2*rc.delay + 200*time.Millisecond)
	puts := rc.snapshot()
	seqOf := func(b []byte) (uint32, bool, bool) {
		f, err := mp4.DecodeFileSR(bits.NewFixedSliceReader(b))
		if err != nil {
			return 0, false, false
		}
		if f.Init != nil {
			return 0, true, true
		}
		if len(f.Segments) == 0 || len(f.Segments[0].Fragments) == 0 {
			return 0, false, false
		}
		return f.Segments[0].Fragments[0].Moof.Mfhd.SequenceNumber, false, true
	}
	numRe := regexp.MustCompile(`(\d+)\.cmf[vat]$`)
	// the instant the last init segment was answered: the stream starts after the live edge of that moment
	var initDoneMS int64
	for _, p := range puts {
		if _, isInit, ok := seqOf(p.body); ok && isInit && p.doneMS > initDoneMS {
			initDoneMS = p.doneMS
		}
	}
	for _, r := range reps {
		var ps []wput
		for _, p := range puts {
			if (c.Streams && p.path == fmt.Sprintf("/dest/Streams(%s%s)", r.id, r.ext)) || (!c.Streams && strings.HasPrefix(p.path, "/dest/"+r.id+"/")) {
				ps = append(ps, p)
			}
		}
		if len(ps) == 0 {
			return hx.V("init-missing", "wall-clock session: nothing arrived for %s", r.id), inf
		}
		if _, isInit, ok := seqOf(ps[0].body); !ok || !isInit {
			return hx.V("init-not-first", "wall-clock session rep %s: the first upload (%s) is not an init segment", r.id, ps[0].path), inf
		}
		media := ps[1:]
		if len(media) > total {
			return hx.V("duration-overrun", "wall-clock session rep %s (duration %d s = %d segments of %d ms, receiver delay %v): %d media segments arrived", r.id, c.Duration, total, segMS, rc.delay, len(media)), inf
		}
		if len(media) < total {
			return hx.V("duration-short", "wall-clock session rep %s (duration %d s = %d segments of %d ms, receiver delay %v): only %d media segments arrived within the bound", r.id, c.Duration, total, segMS, rc.delay, len(media)), inf
		}
		rtl := tl
		if r.rep != nil {
			rtl = refmodel.NewTimeline(e.Asset, r.rep, cfg)
		}
		var first int64
		for k, p := range media {
			if p.aborted {
				return hx.V("upload-aborted", "wall-clock session rep %s: upload %s aborted", r.id, p.path), inf
			}
			seq, isInit, ok := seqOf(p.body)
			if !ok || isInit {
				return hx.V("not-a-media-segment", "wall-clock session rep %s: upload %d (%s) is not a media segment", r.id, k+1, p.path), inf
			}
			n := int64(seq) - rtl.Number(0)
			if k == 0 {
				first = n
				// right after the live edge: the newest complete segment when the session was created .. when the first media upload arrived
				lo, _ := tl.LastAvailable(t0)
				if l2, _ := tl.LastAvailable(initDoneMS); initDoneMS > 0 && initDoneMS <= p.atMS && l2 > lo {
					lo = l2
				}
				hi, _ := tl.LastAvailable(p.atMS)
				if n < lo+1 || n > hi+1 {
					return hx.V("first-number", "wall-clock session rep %s: first media segment is n=%d; the newest complete segment was n=%d when the session had been created and its last init segment answered, and n=%d when this upload arrived", r.id, n, lo, hi), inf
				}
			} else if n != first+int64(k) {
				return hx.V("numbers-not-consecutive", "wall-clock session rep %s: media upload %d is segment n=%d, expected n=%d", r.id, k+1, n, first+int64(k)), inf
			}
			name := rtl.SegName(r.rep, n)
			if !c.Streams {
				w, g := regexp.MustCompile(`(\d+)\.[a-z0-9]+$`).FindStringSubmatch(name), numRe.FindStringSubmatch(p.path)
				if w == nil || g == nil || w[1] != g[1] {
					return hx.V("wrong-segment-number", "wall-clock session rep %s: segment n=%d uploaded to %q, expected %s", r.id, n, p.path, name), inf
				}
			}
			availMS := gen.CeilDivU(rtl.AvailU(n), rtl.TS())
			if p.atMS < availMS-3 {
				return hx.V("uploaded-early", "wall-clock session rep %s: segment n=%d arrived at %d ms, %d ms before it is available (%d ms)", r.id, n, p.atMS, availMS-p.atMS, availMS), inf
			}
			if p.atMS > availMS+segMS {
				inf.behind = true
			}
			ref := e.Srv.Get(ls.URL(parts, e.Asset.Path, name, availMS+1))
			if ref.Code != 200 {
				return hx.V("harness", "reference GET %s -> %v", name, ref), inf
			}
			_, hasLmsg := stripLmsg(p.body)
			isLast := k == total-1
			if hasLmsg != isLast {
				return hx.V("lmsg", "wall-clock session rep %s (receiver delay %v): media upload %d of %d: lmsg brand present=%v", r.id, rc.delay, k+1, total, hasLmsg), inf
			}
			if !isLast && !bytes.Equal(p.body, ref.Body) {
				return hx.V("body-differs", "wall-clock session rep %s: upload %s (%d bytes) differs from what livesim2 serves for %s (%d bytes)", r.id, p.path, len(p.body), name, len(ref.Body)), inf
			}
			if isLast {
				a, err1 := mp4.DecodeFileSR(bits.NewFixedSliceReader(p.body))
				b, err2 := mp4.DecodeFileSR(bits.NewFixedSliceReader(ref.Body))
				if err1 != nil || err2 != nil || len(a.Segments) != 1 || len(b.Segments) != 1 {
					return hx.V("body-differs", "wall-clock session rep %s: last upload %s does not parse like %s", r.id, p.path, name), inf
				}
				var ba, bb bytes.Buffer
				for _, fr := range a.Segments[0].Fragments {
					_ = fr.Encode(&ba)
				}
				for _, fr := range b.Segments[0].Fragments {
					_ = fr.Encode(&bb)
				}
				if !bytes.Equal(ba.Bytes(), bb.Bytes()) {
					return hx.V("body-differs", "wall-clock session rep %s: last upload %s differs from %s in its fragments", r.id, p.path, name), inf
				}
			}
			inf.segments++
		}
	}
	return nil, inf
}

func TestC16WallClock(t *testing.T) {
	run := hx.Start(t, "C16")
	defer run.Finish()
	if run.Replaying() {
		if run.ReplayTest() != t.Name() {
			return
		}
		var c WallCase
		run.ReplayCase(&c)
		e, err := env.Get(c.Target)
		if err != nil {
			t.Fatalf("HARNESS: %v", err)
		}
		if v, _ := checkWall(c, e); v != nil {
			run.Fail(t, c, v)
		}
		return
	}
	run.Rapid(t, 2, 4, 12, func(rt *rapid.T) {
		c, e := genWall(rt)
		v, inf := checkWall(c, e)
		cls := []string{"wall-clock"}
		if c.SlowPct > 100 {
			cls = append(cls, "wall-clock:receiver-slower-than-real-time")
		}
		if inf.behind {
			cls = append(cls, "wall-clock:sender-fell-behind")
		}
		if c.SlowInitPct > 0 {
			cls = append(cls, "wall-clock:slow-init-uploads")
		}
		if inf.segments >= 2 {
			run.NonTrivial(c)
		}
		run.Eval(cls...)
		run.Sample(map[string]any{"wall_clock": true, "asset": c.Target.Name(), "type": c.Type, "duration_s": c.Duration, "receiver_delay_pct": c.SlowPct, "segments_checked": inf.segments})
		if v != nil {
			if v.Kind == "harness" {
				rt.Fatalf("HARNESS: %s", v.Msg)
			}
			run.Fail(rt, c, v)
		}
	})
}

// ---- concurrent creation of sessions (concurrent API calls) ----

type CreateCase struct {
	Target env.Target `json:"target"`
	N      int        `json:"sessions"` // sessions created at the same instant
	NowMS  int64      `json:"test_now_ms"`
	Type   string     `json:"type"`
}

func checkCreate(c CreateCase, e *env.Env) *hx.Violation {
	segMS := int64(e.Asset.LoopMS) / int64(len(e.Asset.Ref.Segs))
	cfg := refmodel.DefaultCfg()
	cfg.Type = c.Type
	if segMS < 1000 {
		cfg.Extra = []string{"mup_1"}
	}
	parts := cfg.Parts()
	tl := refmodel.NewTimeline(e.Asset, e.Asset.Ref, cfg)
	var mpdName string
	for n := range e.Asset.MPDs {
		if mpdName == "" || n < mpdName {
			mpdName = n
		}
	}
	mr := e.Srv.Get(ls.URL(parts, e.Asset.Path, mpdName, c.NowMS))
	if mr.Code != 200 {
		return hx.V("harness", "MPD -> %v", mr)
	}
	m, err := mpdx.Parse(mr.Body)
	if err != nil {
		return hx.V("harness", "%v", err)
	}
	nreps := 0
	for _, as := range m.Periods[0].AS {
		nreps += len(as.Reps)
	}
	recvs := make([]*wrecv, c.N)
	srvs := make([]*httptest.Server, c.N)
	ids := make([]string, c.N)
	codes := make([]int, c.N)
	for i := range recvs {
		recvs[i] = &wrecv{}
		srvs[i] = httptest.NewServer(recvs[i])
		defer srvs[i].Close()
	}
	url := "/livesim2/" + strings.Join(parts, "/") + map[bool]string{true: "/", false: ""}[len(parts) > 0] + e.Asset.Path + "/" + mpdName
	var wg sync.WaitGroup
	start := make(chan struct{})
	for i := 0; i < c.N; i++ {
		i := i
		wg.Add(1)
		go func() {
			defer wg.Done()
			jb, _ := json.Marshal(map[string]any{"destRoot": srvs[i].URL, "destName": "dest", "livesimURL": url, "testNowMS": c.NowMS})
			<-start
			cr := e.Srv.Do("POST", "/api/cmaf-ingests", jb, map[string]string{"Content-Type": "application/json"})
			codes[i] = cr.Code
			var resp struct {
				ID string `json:"id"`
			}
			_ = json.Unmarshal(cr.Body, &resp)
			ids[i] = resp.ID
		}()
	}
	close(start)
	wg.Wait()
	defer func() {
		for _, id := range ids {
			if id != "" {
				e.Srv.Do("DELETE", "/api/cmaf-ingests/"+id, nil, nil)
			}
		}
	}()
	seen := map[string]int{}
	for i, id := range ids {
		if codes[i] != 201 || id == "" {
			return hx.V("create-status", "concurrent creation %d of %d -> %d (id %q)", i+1, c.N, codes[i], id)
		}
		if j, dup := seen[id]; dup {
			return hx.V("duplicate-session-id", "sessions %d and %d, created concurrently with different receivers, both got id %s", j+1, i+1, id)
		}
		seen[id] = i
	}
	// every session is a session of its own: init segments arrive at its receiver, one step delivers one segment per representation
	waitN := func(r *wrecv, n int) bool {
		dl := time.Now().Add(5 * time.Second)
		for time.Now().Before(dl) {
			if len(r.snapshot()) >= n {
				return true
			}
			time.Sleep(2 * time.Millisecond)
		}
		return false
	}
	for i := range recvs {
		if !waitN(recvs[i], nreps) {
			return hx.V("init-missing", "session %s (one of %d created concurrently): %d of %d init segments arrived at its receiver", ids[i], c.N, len(recvs[i].snapshot()), nreps)
		}
	}
	for i, id := range ids {
		if r := e.Srv.Do("GET", "/api/cmaf-ingests/"+id+"/step", nil, nil); r.Code != 200 {
			return hx.V("step-status", "step on session %s -> %v", id, r)
		}
		if !waitN(recvs[i], 2*nreps) {
			return hx.V("segments-per-step", "session %s (one of %d created concurrently): %d uploads after one step, expected %d", id, c.N, len(recvs[i].snapshot()), 2*nreps)
		}
	}
	time.Sleep(50 * time.Millisecond)
	last, _ := tl.LastAvailable(c.NowMS)
	for i := range recvs {
		puts := recvs[i].snapshot()
		if len(puts) != 2*nreps {
			return hx.V("segments-per-step", "session %s (one of %d created concurrently): %d uploads after one step, expected %d", ids[i], c.N, len(puts), 2*nreps)
		}
		for _, p := range puts[nreps:] {
			f, err := mp4.DecodeFileSR(bits.NewFixedSliceReader(p.body))
			if err != nil || len(f.Segments) != 1 || len(f.Segments[0].Fragments) == 0 {
				return hx.V("not-a-media-segment", "session %s: upload %s after the step is not a media segment", ids[i], p.path)
			}
			if got, want := int64(f.Segments[0].Fragments[0].Moof.Mfhd.SequenceNumber), tl.Number(last+1); got != want {
				return hx.V("wrong-segment-number", "session %s (one of %d created concurrently): %s has sequence number %d, the first after the live edge is %d", ids[i], c.N, p.path, got, want)
			}
		}
	}
	return nil
}

func TestC16ConcurrentCreate(t *testing.T) {
	run := hx.Start(t, "C16")
	defer run.Finish()
	if run.Replaying() {
		if run.ReplayTest() != t.Name() {
			return
		}
		var c CreateCase
		run.ReplayCase(&c)
		e, err := env.Get(c.Target)
		if err != nil {
			t.Fatalf("HARNESS: %v", err)
		}
		if v := checkCreate(c, e); v != nil {
			run.Fail(t, c, v)
		}
		return
	}
	run.Rapid(t, 3, 12, 40, func(rt *rapid.T) {
		tg := gen.Target(rt, assetgen.Opts{Audio: []string{"", "aac"}, Uniform: true, MinFrames: 10, MaxFrames: 60}, 50, []string{"testpic_2s", "testpic_8s"})
		e, err := env.Get(tg)
		if err != nil {
			rt.Fatalf("HARNESS: %v", err)
		}
		c := CreateCase{Target: tg, N: rapid.IntRange(2, 8).Draw(rt, "n"), Type: rapid.SampledFrom([]string{"number", "time"}).Draw(rt, "type"),
			NowMS: int64(rapid.SampledFrom([]int{100_000, 1_000_000, 1_700_000_000_000}).Draw(rt, "base")) + int64(rapid.IntRange(0, 5000).Draw(rt, "off"))}
		if segMS := int64(e.Asset.LoopMS) / int64(len(e.Asset.Ref.Segs)); c.NowMS/segMS >= 1<<32-16 {
			c.NowMS = 1_000_000 + c.NowMS%5000 // the sequence number of a segment is a 32-bit field
		}
		v := checkCreate(c, e)
		run.NonTrivial(c)
		run.Eval("concurrent-creation", fmt.Sprintf("concurrent-creation:%d", c.N))
		run.Sample(map[string]any{"concurrent_creation": c.N, "asset": c.Target.Name(), "type": c.Type, "test_now_ms": c.NowMS})
		if v != nil {
			if v.Kind == "harness" {
				rt.Fatalf("HARNESS: %s", v.Msg)
			}
			run.Fail(rt, c, v)
		}
	})
}
