// C16 — the CMAF-ingest sender emits a complete, ordered and faithful stream.
package c16

import (
	"bytes"
	"encoding/base64"
	"encoding/json"
	"fmt"
	"io"
	"net/http"
	"net/http/httptest"
	"os"
	"regexp"
	"sort"
	"strconv"
	"strings"
	"sync"
	"sync/atomic"
	"testing"
	"time"

	"github.com/Eyevinn/mp4ff/bits"
	"github.com/Eyevinn/mp4ff/mp4"
	"pgregory.net/rapid"
	"verifharness/internal/assetgen"
	"verifharness/internal/env"
	"verifharness/internal/gen"
	"verifharness/internal/hx"
	"verifharness/internal/ls"
	"verifharness/internal/mpdx"
	"verifharness/internal/refmodel"
	"verifharness/internal/vod"
)

type Session struct {
	Type      string `json:"type"` // number | time
	Subs      string `json:"subs,omitempty"`
	Streams   bool   `json:"streams_urls"`
	Auth      bool   `json:"auth"`
	Duration  int    `json:"duration_s,omitempty"` // 0 = unlimited
	TestNowMS int64  `json:"test_now_ms"`
	MPD       string `json:"mpd"`
	Slow      bool   `json:"slow_receiver"`
	// EarlyDelete: the session is deleted right after its creation (while init segments may still be
	// uploading) and then stepped once: nothing but init segments may ever arrive.
	EarlyDelete bool `json:"early_delete,omitempty"`
	// Fault: "" | "media-errors" (the receiver answers 500 to every 2nd media upload; the stream must go on
	// unchanged: no retry, no gap) | "init-error" (the receiver refuses one init segment with 403: the session
	// must not send media) | "statuscode" (the livesim URL carries a statuscode_ pattern answering 404 for every
	// other segment: livesim2 itself does not serve those, so they may be absent from the upload log; everything
	// that is uploaded must still be in order and faithful, and the server must survive)
	Fault string `json:"fault,omitempty"`
	Snr   int    `json:"snr,omitempty"`
	// StartS: availabilityStartTime of the stream (start_ in the URL); testNowMS lies after it
	StartS int64 `json:"start_s,omitempty"`
	// Chunked: low-latency session (ato = 3/4 segment, chunkdur = 1/4 segment): every segment is uploaded with chunked
	// transfer encoding while it is produced in real time (so only short segments are drawn)
	Chunked bool `json:"chunked,omitempty"`
	// BigChunk: two chunks per 8 s segment
	BigChunk bool `json:"big_chunk,omitempty"`
	// OKCode: the status the receiver answers accepted uploads with (0 = 200; 201 Created and 204 No Content are as good)
	OKCode int `json:"ok_code,omitempty"`
	// LongUpload (with BigChunk): four chunks of 2 s per 8 s segment instead: one upload stays open for 6 s
	LongUpload bool `json:"long_upload,omitempty"`
}

type Op struct {
	Kind    string `json:"kind"` // step | info | delete
	Session int    `json:"session"`
}

type Case struct {
	Target   env.Target `json:"target"`
	Sessions []Session  `json:"sessions"`
	Ops      []Op       `json:"ops"`
}

func genCase(t *rapid.T) (Case, *env.Env) {
	var tg env.Target
	if os.Getenv("VERIF_TIER") == "thorough" && rapid.IntRange(0, 39).Draw(t, "big-chunk-case") == 0 {
		// thorough tier only (each step takes up to 4 s of real time): chunks of ~150 KiB, larger than the sender's 64 KiB
		// hand-over buffer, towards a receiver that is slow to read
		tg = env.Target{Asset: "testpic_8s"}
		e, err := env.Get(tg)
		if err != nil {
			t.Fatalf("HARNESS: %v", err)
		}
		s := Session{Type: rapid.SampledFrom([]string{"number", "time"}).Draw(t, "type"), MPD: "Manifest.mpd", Chunked: true, BigChunk: true, Slow: true,
			TestNowMS: 1_000_000 + int64(rapid.IntRange(0, 16000).Draw(t, "off")), LongUpload: rapid.Bool().Draw(t, "long-upload")}
		return Case{Target: tg, Sessions: []Session{s}, Ops: []Op{{Kind: "step", Session: 0}, {Kind: "step", Session: 0}}}, e
	}
	lowLatency := rapid.IntRange(0, 4).Draw(t, "low-latency-case") == 0
	if lowLatency {
		// short uniform segments: a chunked session is produced in real time
		tg = gen.Target(t, assetgen.Opts{Audio: []string{"", "aac"}, Uniform: true, MinFrames: 25, MaxFrames: 40, Forms: []string{"timeline", "number"},
			Clocks: []assetgen.Clock{{1000, 40}, {25000, 1000}, {90000, 3600}}}, 0, nil)
	} else {
		tg = gen.Target(t, assetgen.Opts{Audio: []string{"", "aac"}, Uniform: true, MinFrames: 25, MaxFrames: 100, Forms: []string{"timeline", "number"},
			Clocks: []assetgen.Clock{{1000, 40}, {25000, 1000}, {90000, 3600}, {30000, 1001}, {60000, 1001}}}, 60,
			[]string{"testpic_2s", "testpic_2s", "testpic_8s", "testpic_6s", "WAVE/vectors/cfhd_sets/14.985_29.97_59.94/t1/2022-10-17"})
	}
	e, err := env.Get(tg)
	if err != nil {
		t.Fatalf("HARNESS: %v", err)
	}
	var mpds []string
	for n := range e.Asset.MPDs {
		if len(e.Asset.RepsOfType(n, "image")) == 0 {
			mpds = append(mpds, n)
		}
	}
	sort.Strings(mpds)
	c := Case{Target: tg}
	ns := rapid.IntRange(1, 3).Draw(t, "nsessions")
	for i := 0; i < ns; i++ {
		s := Session{Type: rapid.SampledFrom([]string{"number", "time", "tlnr"}).Draw(t, "type"), Streams: rapid.Bool().Draw(t, "streams"), Auth: rapid.Bool().Draw(t, "auth"),
			MPD: rapid.SampledFrom(mpds).Draw(t, "mpd"), Slow: rapid.IntRange(0, 4).Draw(t, "slow") == 0}
		// generated subtitles run on a millisecond timescale: only for assets whose video boundaries are whole ms
		wholeMS := true
		for _, sg := range e.Asset.Ref.Segs {
			if sg.End*1000%e.Asset.Ref.Timescale != 0 {
				wholeMS = false
			}
		}
		if wholeMS && len(e.Asset.RepsOfType(s.MPD, "video")) > 0 {
			s.Subs = rapid.SampledFrom([]string{"", "", "stpp", "wvtt"}).Draw(t, "subs")
		}
		segMS := int64(e.Asset.LoopMS) / int64(len(e.Asset.Ref.Segs))
		s.TestNowMS = int64(rapid.SampledFrom([]int{10_000, 100_000, 1_000_000, 1_700_000_000_000}).Draw(t, "base")) + int64(rapid.IntRange(0, int(2*segMS)).Draw(t, "off"))
		// "the corresponding number of segments" is only defined when all representations share the
		// live segment grid (livesim2 derives the count from the shortest average VoD segment duration)
		sameGrid := true
		for _, r := range e.Asset.Reps {
			if len(r.Segs) != len(e.Asset.Ref.Segs) {
				sameGrid = false
				continue
			}
			avgMS := (int64(r.Segs[len(r.Segs)-1].End-r.Segs[0].Start)*1000 + int64(r.Timescale)*int64(len(r.Segs))/2) / (int64(r.Timescale) * int64(len(r.Segs)))
			if avgMS != segMS {
				sameGrid = false
			}
		}
		if sameGrid && rapid.IntRange(0, 2).Draw(t, "dur?") == 0 {
			s.Duration = int(segMS*int64(rapid.IntRange(1, 4).Draw(t, "dursegs"))) / 1000
			if s.Duration == 0 {
				s.Duration = 1
			}
		}
		s.EarlyDelete = rapid.IntRange(0, 5).Draw(t, "early") == 0
		s.Fault = rapid.SampledFrom([]string{"", "", "", "media-errors", "init-error", "statuscode"}).Draw(t, "fault")
		s.Snr = rapid.SampledFrom([]int{0, 0, 1, 7}).Draw(t, "snr")
		s.StartS = rapid.SampledFrom([]int64{0, 0, 0, 600, 1_600_000_000}).Draw(t, "start")
		if s.StartS != 0 {
			s.TestNowMS = s.StartS*1000 + 10_000 + int64(rapid.IntRange(0, int(3*segMS)).Draw(t, "off2"))
		}
		if s.Fault == "statuscode" {
			s.Streams, s.Duration = false, 0 // uploads are matched by the number/time in their path
		}
		uniform := true
		for _, sg := range e.Asset.Ref.Segs {
			if sg.End-sg.Start != e.Asset.Ref.Segs[0].End-e.Asset.Ref.Segs[0].Start {
				uniform = false
			}
		}
		if uniform && sameGrid && segMS >= 1000 && segMS <= 1600 && segMS%4 == 0 && lowLatency && rapid.IntRange(0, 2).Draw(t, "chunked?") != 0 {
			s.Chunked = true
			s.Subs = ""
			s.Slow = rapid.IntRange(0, 3).Draw(t, "chunked-slow") != 0
			if rapid.IntRange(0, 2).Draw(t, "chunked-fault") == 0 {
				s.Fault, s.Streams, s.Duration = "statuscode", false, 0
			}
		}
		s.OKCode = rapid.SampledFrom([]int{0, 0, 0, 201, 204}).Draw(t, "ok-code")
		c.Sessions = append(c.Sessions, s)
	}
	n := rapid.IntRange(3, 14).Draw(t, "nops")
	for si, s := range c.Sessions {
		if s.Chunked && !s.EarlyDelete { // a low-latency session gets a burst of steps for sure
			c.Ops = append(c.Ops, Op{Kind: "burst", Session: si})
		}
	}
	for i := 0; i < n; i++ {
		c.Ops = append(c.Ops, Op{Kind: rapid.SampledFrom([]string{"step", "step", "step", "burst", "info", "delete"}).Draw(t, "op"), Session: rapid.IntRange(0, ns-1).Draw(t, "s")})
	}
	return c, e
}

type put struct {
	path   string
	ctype  string
	ingest string
	auth   string
	body   []byte
	// aborted: the request body ended with an error (the sender gave the upload up, e.g. session deleted mid-segment)
	aborted bool
	// startSeq/endSeq: positions of the request's start and end in the receiver's event order
	startSeq, endSeq int64
}

type recv struct {
	seq   atomic.Int64
	mu    sync.Mutex
	puts  []put
	fault string
	nInit int
	nMed  int
	slow  bool
	delay time.Duration
	okCode int
}

func (r *recv) ServeHTTP(w http.ResponseWriter, req *http.Request) {
	startSeq := r.seq.Add(1)
	if r.slow {
		time.Sleep(r.delay / 2) // slow to start reading as well: the upload stays in flight
	}
	body, rerr := io.ReadAll(req.Body)
	if r.slow {
		time.Sleep(r.delay)
	}
	isInit := bytes.Contains(body[:min(len(body), 64)], []byte("ftyp"))
	r.mu.Lock()
	r.puts = append(r.puts, put{path: req.URL.Path, ctype: req.Header.Get("Content-Type"), ingest: req.Header.Get("DASH-IF-Ingest"), auth: req.Header.Get("Authorization"), body: body, aborted: rerr != nil, startSeq: startSeq, endSeq: r.seq.Add(1)})
	code := http.StatusOK
	if r.okCode != 0 {
		code = r.okCode
	}
	if isInit {
		r.nInit++
		if r.fault == "init-error" && r.nInit == 1 {
			code = http.StatusForbidden
		}
	} else {
		r.nMed++
		if r.fault == "media-errors" && r.nMed%2 == 0 {
			code = http.StatusInternalServerError
		}
	}
	r.mu.Unlock()
	if req.Method != http.MethodPut {
		w.WriteHeader(http.StatusMethodNotAllowed)
		return
	}
	w.WriteHeader(code)
}

func (r *recv) count() int {
	r.mu.Lock()
	defer r.mu.Unlock()
	return len(r.puts)
}

func (r *recv) waitFor(n int, d time.Duration) bool {
	deadline := time.Now().Add(d)
	for time.Now().Before(deadline) {
		if r.count() >= n {
			return true
		}
		time.Sleep(time.Millisecond)
	}
	return r.count() >= n
}

type repInfo struct {
	id, ext, mime string
	rep           *vod.Rep // nil for generated subtitles
}

var extOf = map[string]string{"video": ".cmfv", "audio": ".cmfa", "text": ".cmft"}
var mimeOf = map[string]string{"video": "video/mp4", "audio": "audio/mp4", "text": "application/mp4"}

type info struct {
	steps    int
	maxReps  int
	finished bool
	deleted  bool
	early    bool
	refused  bool
	faulty   bool
}

func stripLmsg(b []byte) ([]byte, bool) {
	f, err := mp4.DecodeFileSR(bits.NewFixedSliceReader(b))
	if err != nil || len(f.Segments) == 0 || f.Segments[0].Styp == nil {
		return b, false
	}
	has := false
	for _, br := range f.Segments[0].Styp.CompatibleBrands() {
		if br == "lmsg" {
			has = true
		}
	}
	return b, has
}

var stypLmsg = regexp.MustCompile(`lmsg`)

func checkCase(c Case, e *env.Env) (*hx.Violation, info) {
	var inf info
	type sess struct {
		s        Session
		rc       *recv
		srv      *httptest.Server
		id       string
		reps     []repInfo
		parts    []string
		refParts []string // the same configuration without the fault-injection option
		expected int      // puts expected so far
		sent     int      // media segments per representation sent so far
		first    int64
		total    int // segments to send if a duration is set (-1 unlimited)
		done     bool
		gone     bool
		early    bool
		refused  bool
		tl       *refmodel.Timeline
	}
	var ss []*sess
	defer func() {
		for _, s := range ss {
			if s.id != "" && !s.gone {
				e.Srv.Do("DELETE", "/api/cmaf-ingests/"+s.id, nil, nil)
			}
			s.srv.Close()
		}
	}()
	segMS := int64(e.Asset.LoopMS) / int64(len(e.Asset.Ref.Segs))
	for _, s := range c.Sessions {
		x := &sess{s: s, rc: &recv{slow: s.Slow || s.EarlyDelete, delay: 15 * time.Millisecond, fault: s.Fault, okCode: s.OKCode}, total: -1}
		if s.EarlyDelete {
			x.rc.delay = 40 * time.Millisecond
		}
		x.srv = httptest.NewServer(x.rc)
		ss = append(ss, x)
		cfg := refmodel.DefaultCfg()
		cfg.Type = s.Type
		if s.Snr != 0 {
			cfg.Snr, cfg.HasSnr = int64(s.Snr), true
		}
		if s.StartS != 0 {
			cfg.StartS, cfg.HasStart = s.StartS, true
		}
		if segMS < 1000 {
			cfg.Extra = []string{"mup_1"}
		}
		x.parts = cfg.Parts()
		x.refParts = x.parts
		if s.Subs != "" {
			x.refParts = append(append([]string{}, x.parts...), "timesubs"+s.Subs+"_en")
		}
		if s.Chunked {
			ll := []string{"ato_" + refmodel.FormatMS(segMS*3/4), "chunkdur_" + refmodel.FormatMS(segMS/4)}
			if s.BigChunk && !s.LongUpload {
				ll = []string{"ato_" + refmodel.FormatMS(segMS/2), "chunkdur_" + refmodel.FormatMS(segMS/2)}
			}
			x.parts = append(x.parts, ll...)
			x.refParts = append(append([]string{}, x.refParts...), ll...)
		}
		if s.Fault == "statuscode" {
			x.parts = append(x.parts, fmt.Sprintf("statuscode_[{cycle:%d,rsq:1,code:404}]", max(2, (2*segMS+999)/1000)))
		}
		if s.Subs != "" {
			x.parts = append(x.parts, "timesubs"+s.Subs+"_en")
		}
		x.tl = refmodel.NewTimeline(e.Asset, e.Asset.Ref, cfg)
		// representations in the MPD's order by content type (video, audio, text) as the sender documents
		mr := e.Srv.Get(ls.URL(x.parts, e.Asset.Path, s.MPD, s.TestNowMS))
		if mr.Code != 200 {
			return hx.V("harness", "MPD -> %v", mr), inf
		}
		m, err := mpdx.Parse(mr.Body)
		if err != nil {
			return hx.V("harness", "%v", err), inf
		}
		for _, as := range m.Periods[0].AS {
			for _, r := range as.Reps {
				ri := repInfo{id: r.ID, ext: extOf[as.Kind()], mime: mimeOf[as.Kind()], rep: e.Asset.Reps[r.ID]}
				x.reps = append(x.reps, ri)
			}
		}
		if len(x.reps) > inf.maxReps {
			inf.maxReps = len(x.reps)
		}
		body := map[string]any{"destRoot": x.srv.URL, "destName": "dest", "livesimURL": "/livesim2/" + strings.Join(x.parts, "/") + map[bool]string{true: "/", false: ""}[len(x.parts) > 0] + e.Asset.Path + "/" + s.MPD, "testNowMS": s.TestNowMS, "streamsURLs": s.Streams}
		if s.Auth {
			body["user"], body["password"] = "u1", "p1"
		}
		if s.Duration > 0 {
			body["duration"] = s.Duration
			x.total = int(int64(s.Duration) * 1000 / segMS)
		}
		jb, _ := json.Marshal(body)
		cr := e.Srv.Do("POST", "/api/cmaf-ingests", jb, map[string]string{"Content-Type": "application/json"})
		if cr.Code != 201 {
			return hx.V("create-status", "POST /api/cmaf-ingests %s -> %v", jb, cr), inf
		}
		var resp struct {
			ID string `json:"id"`
		}
		_ = json.Unmarshal(cr.Body, &resp)
		x.id = resp.ID
		x.expected = len(x.reps)
		if s.EarlyDelete {
			if r := e.Srv.Do("DELETE", "/api/cmaf-ingests/"+x.id, nil, nil); r.Code != 200 {
				return hx.V("delete-status", "DELETE right after creation -> %v", r), inf
			}
			x.gone, x.early = true, true
			inf.early = true
			// a step on the deleted session must not revive it; it may be refused
			stepDone := make(chan struct{})
			go func() { e.Srv.Do("GET", "/api/cmaf-ingests/"+x.id+"/step", nil, nil); close(stepDone) }()
			select {
			case <-stepDone:
			case <-time.After(5 * time.Second):
				return hx.V("step-blocks", "step on session %s deleted during its init phase did not return within 5 s", x.id), inf
			}
			time.Sleep(time.Duration(len(x.reps)+1) * x.rc.delay) // let whatever is still in flight arrive
			n, _ := x.tl.LastAvailable(s.TestNowMS)
			x.first = n + 1
			continue
		}
		if !x.rc.waitFor(x.expected, 3*time.Second) {
			return hx.V("init-missing", "session %s: %d of %d init segments arrived", x.id, x.rc.count(), x.expected), inf
		}
		n, _ := x.tl.LastAvailable(s.TestNowMS)
		x.first = n + 1
		if s.Fault == "init-error" {
			x.refused = true // the session ends after the init phase: steps are refused, nothing more is sent
			inf.refused = true
		}
	}
	checkLog := func(x *sess) *hx.Violation {
		x.rc.mu.Lock()
		puts := append([]put{}, x.rc.puts...)
		x.rc.mu.Unlock()
		if x.early {
			for _, p := range puts {
				f, err := mp4.DecodeFileSR(bits.NewFixedSliceReader(p.body))
				if err != nil || f.Init == nil {
					return hx.V("upload-after-delete", "session %s was deleted right after creation, yet a media segment was uploaded to %s", x.id, p.path)
				}
			}
			if len(puts) > len(x.reps) {
				return hx.V("upload-after-delete", "session %s (deleted right after creation): %d uploads for %d representations", x.id, len(puts), len(x.reps))
			}
			return nil
		}
		if len(puts) > x.expected {
			return hx.V("unexpected-upload", "session %s: %d uploads, %d expected (last: %s)", x.id, len(puts), x.expected, puts[len(puts)-1].path)
		}
		perRep := map[string][]put{}
		for i, p := range puts {
			if p.ingest != "1.1" {
				return hx.V("ingest-header", "%s: DASH-IF-Ingest=%q", p.path, p.ingest)
			}
			wantAuth := ""
			if x.s.Auth {
				wantAuth = "Basic " + base64.StdEncoding.EncodeToString([]byte("u1:p1"))
			}
			if p.auth != wantAuth {
				return hx.V("credentials", "%s: Authorization=%q, configured %q", p.path, p.auth, wantAuth)
			}
			// which representation?
			var ri *repInfo
			for k := range x.reps {
				r := &x.reps[k]
				if x.s.Streams {
					if p.path == fmt.Sprintf("/dest/Streams(%s%s)", r.id, r.ext) {
						ri = r
					}
				} else if strings.HasPrefix(p.path, "/dest/"+r.id+"/") && strings.HasSuffix(p.path, r.ext) {
					ri = r
				}
			}
			if ri == nil {
				return hx.V("upload-path", "session %s: upload %d to %q matches no representation (extension/path)", x.id, i, p.path)
			}
			if p.ctype != ri.mime {
				return hx.V("content-type", "%s: Content-Type %q, expected %q", p.path, p.ctype, ri.mime)
			}
			perRep[ri.id] = append(perRep[ri.id], p)
		}
		for _, r := range x.reps {
			ps := perRep[r.id]
			if len(ps) == 0 {
				return hx.V("init-missing", "session %s: nothing for %s", x.id, r.id)
			}
			// init first
			f, err := mp4.DecodeFileSR(bits.NewFixedSliceReader(ps[0].body))
			if err != nil || f.Init == nil {
				return hx.V("init-not-first", "session %s rep %s: the first upload (%s) is not an init segment", x.id, r.id, ps[0].path)
			}
			if !x.s.Streams && ps[0].path != "/dest/"+r.id+"/init"+r.ext {
				return hx.V("upload-path", "init path %q", ps[0].path)
			}
			// the init segment describes the same track as the one livesim2 serves for the representation (the sender adds
			// boxes of its own - bit rate, kind, creation time - so handler, sample entry and timescale are compared)
			initName := r.id + "/init.mp4"
			if r.rep != nil {
				initName = r.rep.InitURI
			}
			if ir := e.Srv.Get(ls.URL(x.refParts, e.Asset.Path, initName, x.s.TestNowMS)); ir.Code == 200 {
				if rf, err := mp4.DecodeFileSR(bits.NewFixedSliceReader(ir.Body)); err == nil && rf.Init != nil {
					sig := func(in *mp4.InitSegment) string {
						tr := in.Moov.Trak
						se := "?"
						if tr.Mdia.Minf.Stbl.Stsd != nil && len(tr.Mdia.Minf.Stbl.Stsd.Children) > 0 {
							se = tr.Mdia.Minf.Stbl.Stsd.Children[0].Type()
						}
						return fmt.Sprintf("handler %s, sample entry %s, timescale %d", tr.Mdia.Hdlr.HandlerType, se, tr.Mdia.Mdhd.Timescale)
					}
					if got, want := sig(f.Init), sig(rf.Init); got != want {
						return hx.V("init-differs", "session %s rep %s: uploaded init segment is a track with %s; livesim2 serves %s for %s", x.id, r.id, got, want, initName)
					}
				}
			}
			for k := 2; k < len(ps); k++ {
				if ps[k].startSeq < ps[k-1].endSeq {
					return hx.V("uploads-overlap", "session %s rep %s: the upload to %s started before the upload to %s had ended (one segment at a time per representation)", x.id, r.id, ps[k].path, ps[k-1].path)
				}
			}
			lossy := x.s.Fault == "statuscode"
			if !lossy && len(ps)-1 != x.sent {
				return hx.V("segments-per-step", "session %s rep %s: %d media segments after %d effective steps", x.id, r.id, len(ps)-1, x.sent)
			}
			numRe := regexp.MustCompile(`(\d+)\.[a-z0-9]+$`)
			next := int64(0) // offset of the next expected segment
			for k, p := range ps[1:] {
				nameOf := func(n int64) string {
					switch {
					case r.rep != nil:
						tl := refmodel.NewTimeline(e.Asset, r.rep, x.tl.Cfg)
						return tl.SegName(r.rep, n)
					case x.s.Type == "time":
						return fmt.Sprintf("%s/%d.m4s", r.id, x.tl.Start(n)*1000/x.tl.TS())
					default:
						return fmt.Sprintf("%s/%d.m4s", r.id, x.tl.Number(n))
					}
				}
				if lossy {
					// segments livesim2 answers with the configured status may be absent: find this upload among the remaining expected ones
					got := numRe.FindStringSubmatch(p.path)
					found := false
					for ; next < int64(x.sent); next++ {
						if w := numRe.FindStringSubmatch(nameOf(x.first + next)); got != nil && w != nil && w[1] == got[1] {
							found = true
							break
						}
					}
					if !found {
						return hx.V("wrong-segment-number", "session %s rep %s: media upload %d goes to %q, which is not one of the remaining expected segments (duplicate, reordered or outside the %d steps)", x.id, r.id, k, p.path, x.sent)
					}
				}
				n := x.first + next
				next++
				name := nameOf(n)
				if p.aborted {
					// an upload the sender gave up: only the newest one of a deleted session may look like that
					if x.gone && k == len(ps)-2 {
						continue
					}
					return hx.V("upload-aborted", "session %s rep %s: upload %s was aborted by the sender after %d bytes (session deleted=%v, upload %d of %d)", x.id, r.id, p.path, len(p.body), x.gone, k+1, len(ps)-1)
				}
				if !x.s.Streams {
					base := strings.TrimSuffix(name[strings.LastIndex(name, "/")+1:], ".m4s")
					// the path carries the number (or time) of the segment
					want := regexp.MustCompile(`(\d+)\.[a-z0-9]+$`).FindStringSubmatch(name)
					got := regexp.MustCompile(`(\d+)\.cmf[vat]$`).FindStringSubmatch(p.path)
					if want == nil || got == nil || want[1] != got[1] {
						return hx.V("wrong-segment-number", "session %s rep %s: media upload %d goes to %q, expected number/time %s (first after the live edge is n=%d)", x.id, r.id, k, p.path, base, x.first)
					}
				}
				now := gen.CeilDivU(x.tl.AvailU(n), x.tl.TS()) + 1
				ref := e.Srv.Get(ls.URL(x.refParts, e.Asset.Path, name, now))
				if ref.Code != 200 {
					return hx.V("harness", "reference GET %s -> %v", name, ref)
				}
				isLast := x.total >= 0 && k == x.total-1
				body := p.body
				_, hasLmsg := stripLmsg(body)
				if hasLmsg != isLast {
					return hx.V("lmsg", "session %s rep %s: media upload %d of %d (duration %d s): lmsg brand present=%v (styp: %q)", x.id, r.id, k+1, x.total, x.s.Duration, hasLmsg, body[:min(48, len(body))])
				}
				if !isLast && !bytes.Equal(body, ref.Body) {
					return hx.V("body-differs", "session %s rep %s: upload %s (%d bytes) differs from what livesim2 serves for %s (%d bytes)", x.id, r.id, p.path, len(body), name, len(ref.Body))
				}
				if isLast {
					// identical up to the lmsg brand: compare the fragments
					a, err1 := mp4.DecodeFileSR(bits.NewFixedSliceReader(body))
					b, err2 := mp4.DecodeFileSR(bits.NewFixedSliceReader(ref.Body))
					if err1 != nil || err2 != nil || len(a.Segments) != len(b.Segments) {
						return hx.V("body-differs", "last segment unparsable")
					}
					var ba, bb bytes.Buffer
					for _, fr := range a.Segments[0].Fragments {
						_ = fr.Encode(&ba)
					}
					for _, fr := range b.Segments[0].Fragments {
						_ = fr.Encode(&bb)
					}
					if !bytes.Equal(ba.Bytes(), bb.Bytes()) {
						return hx.V("body-differs", "session %s rep %s: last segment's fragments differ from livesim2's", x.id, r.id)
					}
				}
			}
		}
		return nil
	}
	for i, op := range c.Ops {
		x := ss[op.Session]
		switch op.Kind {
		case "info":
			r := e.Srv.Do("GET", "/api/cmaf-ingests/"+x.id, nil, nil)
			if r.Code != 200 {
				return hx.V("info-status", "op %d: GET info -> %v", i, r), inf
			}
		case "delete":
			r := e.Srv.Do("DELETE", "/api/cmaf-ingests/"+x.id, nil, nil)
			if r.Code != 200 {
				return hx.V("delete-status", "op %d: DELETE -> %v", i, r), inf
			}
			x.gone = true
			inf.deleted = true
		case "step", "burst":
			// burst: steps issued back to back without waiting for the uploads in between - the session loop itself has to
			// finish the uploads of one segment before it starts the next
			nsteps := 1
			if op.Kind == "burst" {
				nsteps = 3
			}
			for si := 0; si < nsteps; si++ {
				done := make(chan ls.Resp, 1)
				go func() { done <- e.Srv.Do("GET", "/api/cmaf-ingests/"+x.id+"/step", nil, nil) }()
				var r ls.Resp
				select {
				case r = <-done:
				case <-time.After(5 * time.Second):
					return hx.V("step-blocks", "op %d: step of session %s (deleted=%v, finished=%v) did not return within 5 s", i, x.id, x.gone, x.done), inf
				}
				finished := x.total >= 0 && x.sent >= x.total
				switch {
				case x.gone || finished || x.refused:
					// a stopped session sends nothing more; the step is refused
					if r.Code == 200 {
						// tolerated: the call may return 200 without effect if the loop is just ending
					}
					x.done = x.done || finished
				default:
					if r.Code != 200 {
						return hx.V("step-status", "op %d: step -> %v", i, r), inf
					}
					x.sent++
					x.expected += len(x.reps)
					inf.steps++
				}
				if x.total >= 0 && x.sent >= x.total {
					inf.finished = true
				}
			}
		}
		if x.s.Fault == "statuscode" {
			time.Sleep(40 * time.Millisecond)
		} else if bound := map[bool]time.Duration{false: 3 * time.Second, true: 25 * time.Second}[x.s.BigChunk]; !x.early && !x.rc.waitFor(x.expected, bound) {
			return hx.V("segment-missing", "op %d (%s): session %s delivered %d of %d uploads", i, op.Kind, x.id, x.rc.count(), x.expected), inf
		}
		time.Sleep(2 * time.Millisecond) // let a surplus upload show up
		for _, y := range ss {
			if v := checkLog(y); v != nil {
				v.Msg = fmt.Sprintf("after op %d (%s on session %s): %s", i, op.Kind, x.id, v.Msg)
				return v, inf
			}
		}
	}
	return nil, inf
}

func TestC16(t *testing.T) {
	run := hx.Start(t, "C16")
	defer run.Finish()
	if run.Replaying() {
		if rt := run.ReplayTest(); rt != "" && rt != t.Name() {
			return
		}
		var c Case
		run.ReplayCase(&c)
		e, err := env.Get(c.Target)
		if err != nil {
			t.Fatalf("HARNESS: %v", err)
		}
		if v, _ := checkCase(c, e); v != nil {
			run.Fail(t, c, v)
		}
		return
	}
	run.Essential(">=3-steps-with->=2-reps", "duration-finished", "deleted", "deleted-during-init", "concurrent-sessions", "init-refused", "media-errors", "snr!=0", "start!=0")
	run.Rapid(t, 1, 40, 250, func(rt *rapid.T) {
		c, e := genCase(rt)
		v, inf := checkCase(c, e)
		cls := []string{}
		if inf.steps >= 3 && inf.maxReps >= 2 {
			cls = append(cls, ">=3-steps-with->=2-reps")
			run.NonTrivial(c)
		}
		if inf.finished {
			cls = append(cls, "duration-finished")
		}
		if inf.deleted {
			cls = append(cls, "deleted")
		}
		if inf.early {
			cls = append(cls, "deleted-during-init")
		}
		if inf.refused {
			cls = append(cls, "init-refused")
		}
		for _, s := range c.Sessions {
			if s.Fault == "media-errors" && inf.steps >= 2 {
				cls = append(cls, "media-errors")
				break
			}
		}
		for _, s := range c.Sessions {
			if s.Snr != 0 {
				cls = append(cls, "snr!=0")
				break
			}
		}
		for _, s := range c.Sessions {
			if s.StartS != 0 {
				cls = append(cls, "start!=0")
				break
			}
		}
		for _, s := range c.Sessions {
			if s.Chunked {
				cls = append(cls, "chunked")
				break
			}
		}
		if len(c.Sessions) > 1 {
			cls = append(cls, "concurrent-sessions")
		}
		for _, s := range c.Sessions {
			cls = append(cls, "type:"+s.Type)
			if s.Subs != "" {
				cls = append(cls, "subs")
			}
			if s.Streams {
				cls = append(cls, "streams-urls")
			}
		}
		run.Eval(cls...)
		run.Sample(map[string]any{"asset": c.Target.Name(), "sessions": c.Sessions, "ops": len(c.Ops), "effective_steps": inf.steps})
		if v != nil {
			if v.Kind == "harness" {
				rt.Fatalf("HARNESS: %s", v.Msg)
			}
			run.Fail(rt, c, v)
		}
	})
	_ = strconv.Itoa
	_ = stypLmsg
}
