// C20 — the request limiter enforces its quota exactly, also under concurrency.
package c20

import (
	"context"
	"fmt"
	"io"
	"log/slog"
	"net"
	"net/http"
	"net/http/httptest"
	"sort"
	"strings"
	"sync"
	"sync/atomic"
	"testing"
	"time"

	"github.com/Dash-Industry-Forum/livesim2/cmd/livesim2/app"
	"pgregory.net/rapid"
	"verifharness/internal/hx"
	"verifharness/internal/ls"
)

func init() {
	slog.SetDefault(slog.New(slog.NewTextHandler(io.Discard, &slog.HandlerOptions{Level: slog.Level(100)})))
}

var t0 = time.Unix(1_700_000_000, 0)

type Op struct {
	Kind string `json:"kind"` // inc | count | end
	DtNs int64  `json:"dt_ns"`
	IP   string `json:"ip"`
}

type SeqCase struct {
	Max        int    `json:"max"`
	IntervalNs int64  `json:"interval_ns"`
	Whitelist  string `json:"whitelist"`
	Ops        []Op   `json:"ops"`
}

var ipPool = []string{"10.0.0.1", "10.0.0.2", "10.1.2.3", "192.168.1.77", "172.16.5.4", "8.8.8.8",
	"2001:db8::1", "2001:db8:1::2", "fe80::1", "::1", "not-an-ip", "", "10.0.0.1, 10.0.0.2", "300.1.1.1"}
var cidrPool = []string{"10.0.0.0/8", "10.0.0.0/31", "192.168.0.0/16", "2001:db8::/32", "8.8.8.8/32", "::1/128", "0.0.0.0/0", "172.16.0.0/12"}

func genSeq(t *rapid.T) SeqCase {
	c := SeqCase{
		Max:        rapid.SampledFrom([]int{1, 2, 3, 5, 10}).Draw(t, "max"),
		IntervalNs: rapid.SampledFrom([]int64{1, 1000, int64(time.Second), int64(time.Hour), int64(24 * time.Hour)}).Draw(t, "interval"),
	}
	nw := rapid.SampledFrom([]int{0, 0, 1, 2, 3}).Draw(t, "nwl")
	wl := []string{}
	for i := 0; i < nw; i++ {
		wl = append(wl, rapid.SampledFrom(cidrPool).Draw(t, "cidr"))
	}
	c.Whitelist = strings.Join(wl, ",")
	nIP := rapid.IntRange(1, 5).Draw(t, "nip")
	ips := make([]string, nIP)
	for i := range ips {
		ips[i] = rapid.SampledFrom(ipPool).Draw(t, "ip")
	}
	nOps := rapid.IntRange(1, 60).Draw(t, "nops")
	for i := 0; i < nOps; i++ {
		op := Op{Kind: rapid.SampledFrom([]string{"inc", "inc", "inc", "inc", "count", "end"}).Draw(t, "kind"),
			IP: rapid.SampledFrom(ips).Draw(t, "opip")}
		// time advance clustered around the interval boundary; exact equality with the boundary is avoided
		// by construction for the *accumulated* time since the last reset (see checkSeq), not here.
		switch rapid.SampledFrom([]string{"zero", "small", "near", "multi", "big", "back"}).Draw(t, "dtkind") {
		case "back":
			// a request stamped slightly before the previous one: concurrent requests take their timestamp before they
			// enter the limiter and may enter it in the opposite order. An older stamp restarts nothing.
			op.DtNs = -int64(rapid.IntRange(1, 1000).Draw(t, "back"))
		case "zero":
			op.DtNs = 0
		case "small":
			op.DtNs = rapid.Int64Range(0, c.IntervalNs/4+1).Draw(t, "dt")
		case "near":
			op.DtNs = c.IntervalNs + rapid.SampledFrom([]int64{-2, -1, 0, 1, 2}).Draw(t, "delta")
			if op.DtNs < 0 {
				op.DtNs = 0
			}
		case "multi":
			op.DtNs = c.IntervalNs*int64(rapid.IntRange(2, 4).Draw(t, "k")) + rapid.SampledFrom([]int64{-1, 0, 1}).Draw(t, "delta")
		case "big":
			op.DtNs = rapid.Int64Range(0, 3*c.IntervalNs+3).Draw(t, "dt")
		}
		c.Ops = append(c.Ops, op)
	}
	return c
}

type seqStats struct {
	resets, overQuota, whitelisted, addrs, boundaryAdjusted int
}

// checkSeq runs the operation sequence against the limiter and against reference models
// written from the property statement: a map of counters per interval and a restart policy.
func checkSeq(c SeqCase) (*hx.Violation, seqStats) {
	var st seqStats
	il, err := app.NewIPRequestLimiter(c.Max, time.Duration(c.IntervalNs), t0, c.Whitelist, "")
	if err != nil {
		return hx.V("harness", "limiter construction: %v", err), st
	}
	var nets []*net.IPNet
	if c.Whitelist != "" {
		for _, b := range strings.Split(c.Whitelist, ",") {
			_, n, err := net.ParseCIDR(b)
			if err != nil {
				return hx.V("harness", "cidr: %v", err), st
			}
			nets = append(nets, n)
		}
	}
	white := func(ip string) bool {
		p := net.ParseIP(ip)
		for _, n := range nets {
			if p != nil && n.Contains(p) {
				return true
			}
		}
		return false
	}
	// Two restart policies satisfy the statement ("counters restart only when the interval has elapsed"): the interval
	// restarts at the first request after it elapsed (sliding, what the code documents through ResetTime/EndTime), or
	// intervals lie on a fixed grid of multiples of the interval. The history must agree with one of them throughout.
	type policy struct {
		name  string
		model map[string]int
		reset time.Time
		alive bool
		why   string
	}
	pols := []*policy{{name: "sliding", model: map[string]int{}, reset: t0, alive: true}, {name: "grid", model: map[string]int{}, reset: t0, alive: true}}
	now := t0
	seen := map[string]bool{}
	iv := time.Duration(c.IntervalNs)
	for i, op := range c.Ops {
		now = now.Add(time.Duration(op.DtNs))
		for _, p := range pols {
			if d := now.Sub(p.reset); d == iv || (p.name == "grid" && d > iv && d%iv == 0) {
				// the single instant "exactly on an interval boundary" is ambiguous in the statement: step over it.
				now = now.Add(1)
				st.boundaryAdjusted++
			}
		}
		var nr, max int
		var ok bool
		var cnt int
		var end time.Time
		switch op.Kind {
		case "inc":
			nr, max, ok = il.Inc(now, op.IP)
			seen[op.IP] = true
		case "count":
			cnt = il.Count(op.IP)
		case "end":
			end = il.EndTime()
		}
		for _, p := range pols {
			if !p.alive {
				continue
			}
			fail := func(format string, a ...any) {
				p.alive = false
				p.why = fmt.Sprintf("op %d: ", i) + fmt.Sprintf(format, a...)
			}
			switch op.Kind {
			case "inc":
				if now.Sub(p.reset) > iv {
					p.model = map[string]int{}
					if p.name == "sliding" {
						p.reset = now
					} else {
						p.reset = p.reset.Add(now.Sub(p.reset) / iv * iv)
						if !now.After(p.reset) { // exactly on the grid cannot happen (stepped over)
							p.reset = p.reset.Add(-iv)
						}
					}
					if p.name == "sliding" {
						st.resets++
					}
				}
				p.model[op.IP]++
				wantNr, wantMax, wantOK := p.model[op.IP], c.Max, p.model[op.IP] <= c.Max
				if white(op.IP) {
					wantOK, wantMax = true, -1
					if p.name == "sliding" {
						st.whitelisted++
					}
				} else if !wantOK && p.name == "sliding" {
					st.overQuota++
				}
				if nr != wantNr || max != wantMax || ok != wantOK {
					fail("Inc(+%dns,%q) = (%d,%d,%v), %s model (%d,%d,%v)", now.Sub(t0), op.IP, nr, max, ok, p.name, wantNr, wantMax, wantOK)
				}
			case "count":
				if cnt != p.model[op.IP] {
					fail("Count(%q)=%d, %s model %d", op.IP, cnt, p.name, p.model[op.IP])
				}
			case "end":
				if want := p.reset.Add(iv); !end.Equal(want) {
					fail("EndTime=%v, %s model %v", end, p.name, want)
				}
			}
		}
		if !pols[0].alive && !pols[1].alive {
			return hx.V("history-matches-no-restart-policy", "%s | %s", pols[0].why, pols[1].why), st
		}
	}
	st.addrs = len(seen)
	return nil, st
}

func TestC20Sequential(t *testing.T) {
	run := hx.Start(t, "C20")
	defer run.Finish()
	if run.Replaying() {
		if run.ReplayTest() != t.Name() {
			return
		}
		var c SeqCase
		run.ReplayCase(&c)
		if v, _ := checkSeq(c); v != nil {
			run.Fail(t, c, v)
		}
		return
	}
	run.Rapid(t, 1, 1500, 12000, func(rt *rapid.T) {
		c := genSeq(rt)
		v, st := checkSeq(c)
		cls := []string{"seq"}
		if st.resets > 0 {
			cls = append(cls, "seq:crosses-interval")
		}
		if st.overQuota > 0 {
			cls = append(cls, "seq:over-quota")
		}
		if st.whitelisted > 0 {
			cls = append(cls, "seq:whitelisted-request")
		}
		run.Eval(cls...)
		if st.resets >= 1 && st.addrs >= 2 && st.overQuota >= 1 {
			run.NonTrivial(c)
		}
		run.Sample(map[string]any{"kind": "sequence", "max": c.Max, "interval_ns": c.IntervalNs, "whitelist": c.Whitelist, "n_ops": len(c.Ops), "first_ops": firstOps(c.Ops, 6)})
		if v != nil {
			run.Fail(rt, c, v)
		}
	})
}

func firstOps(ops []Op, n int) []Op {
	if len(ops) > n {
		return ops[:n]
	}
	return ops
}

// ---- middleware under concurrency ---------------------------------------------------------------

type MWCase struct {
	Max        int      `json:"max"`
	Whitelist  string   `json:"whitelist"`
	Goroutines int      `json:"goroutines"`
	Addrs      []string `json:"addrs"`     // address of request i is Addrs[Plan[i]]
	Forwarded  []bool   `json:"forwarded"` // per address: sent as X-Forwarded-For or as RemoteAddr
	Plan       []int    `json:"plan"`
}

var mwAddrs = []string{"10.0.0.1", "10.0.0.2", "192.168.1.77", "8.8.8.8", "2001:db8::1", "::1", "172.16.5.4"}

func genMW(t *rapid.T) MWCase {
	c := MWCase{Max: rapid.IntRange(1, 8).Draw(t, "max"), Goroutines: rapid.IntRange(2, 12).Draw(t, "g")}
	if rapid.Bool().Draw(t, "wl") {
		c.Whitelist = rapid.SampledFrom(cidrPool).Draw(t, "cidr")
	}
	n := rapid.IntRange(1, 4).Draw(t, "naddr")
	perm := rapid.Permutation(mwAddrs).Draw(t, "perm")
	c.Addrs = perm[:n]
	for range c.Addrs {
		c.Forwarded = append(c.Forwarded, rapid.Bool().Draw(t, "fwd"))
	}
	nReq := rapid.IntRange(2, 60).Draw(t, "nreq")
	for i := 0; i < nReq; i++ {
		c.Plan = append(c.Plan, rapid.IntRange(0, n-1).Draw(t, "a"))
	}
	return c
}

type mwObs struct {
	addr   int
	status int
	hdr    string
	passed bool
}

func checkMW(c MWCase) *hx.Violation {
	il, err := app.NewIPRequestLimiter(c.Max, 24*time.Hour, time.Now(), c.Whitelist, "")
	if err != nil {
		return hx.V("harness", "limiter: %v", err)
	}
	var reached atomic.Int64
	next := http.HandlerFunc(func(w http.ResponseWriter, r *http.Request) {
		reached.Add(1)
		w.Header().Set("X-Reached", "1")
		w.WriteHeader(200)
	})
	h := app.NewLimiterMiddleware("Livesim2-Requests", il)(next)
	obs := make([]mwObs, len(c.Plan))
	var wg sync.WaitGroup
	startCh := make(chan struct{})
	for g := 0; g < c.Goroutines; g++ {
		wg.Add(1)
		go func(g int) {
			defer wg.Done()
			<-startCh
			for i := g; i < len(c.Plan); i += c.Goroutines {
				a := c.Plan[i]
				req := httptest.NewRequest("GET", "/livesim2/x", nil)
				if c.Forwarded[a] {
					req.Header.Set("X-Forwarded-For", c.Addrs[a])
					req.RemoteAddr = "203.0.113.9:4444"
				} else {
					req.RemoteAddr = net.JoinHostPort(c.Addrs[a], "5555")
				}
				rr := httptest.NewRecorder()
				h.ServeHTTP(rr, req)
				obs[i] = mwObs{addr: a, status: rr.Code, hdr: rr.Header().Get("Livesim2-Requests"), passed: rr.Header().Get("X-Reached") == "1"}
			}
		}(g)
	}
	close(startCh)
	wg.Wait()
	_, wlNet, _ := net.ParseCIDR(orDefault(c.Whitelist, "255.255.255.255/32"))
	nPassed := 0
	for a := range c.Addrs {
		white := c.Whitelist != "" && wlNet.Contains(net.ParseIP(c.Addrs[a]))
		var counters []int
		for _, o := range obs {
			if o.addr != a {
				continue
			}
			var nr, max int
			if _, err := fmt.Sscanf(o.hdr, "%d (max %d)", &nr, &max); err != nil {
				return hx.V("mw-header", "address %s: header %q not of the form 'n (max m)'", c.Addrs[a], o.hdr)
			}
			counters = append(counters, nr)
			wantLimited := !white && nr > c.Max
			if wantLimited != (o.status == http.StatusTooManyRequests) {
				return hx.V("mw-status", "address %s (white=%v): counter %d max %d but status %d", c.Addrs[a], white, nr, c.Max, o.status)
			}
			if o.passed == wantLimited {
				return hx.V("mw-pass", "address %s: counter %d max %d, passed-on=%v", c.Addrs[a], nr, c.Max, o.passed)
			}
			if white && max != -1 || !white && max != c.Max {
				return hx.V("mw-max", "address %s (white=%v): header max %d", c.Addrs[a], white, max)
			}
			if o.passed {
				nPassed++
			}
		}
		sort.Ints(counters)
		for i, n := range counters {
			if n != i+1 {
				return hx.V("mw-counters", "address %s: header counters %v are not exactly 1..%d", c.Addrs[a], counters, len(counters))
			}
		}
		if got := il.Count(c.Addrs[a]); got != len(counters) {
			return hx.V("mw-count", "address %s: Count=%d after %d requests", c.Addrs[a], got, len(counters))
		}
	}
	if int(reached.Load()) != nPassed {
		return hx.V("mw-reached", "next handler reached %d times, %d requests were passed on", reached.Load(), nPassed)
	}
	return nil
}

func orDefault(s, d string) string {
	if s == "" {
		return d
	}
	return s
}

func TestC20Middleware(t *testing.T) {
	run := hx.Start(t, "C20")
	defer run.Finish()
	if run.Replaying() {
		if run.ReplayTest() != t.Name() {
			return
		}
		var c MWCase
		run.ReplayCase(&c)
		for i := 0; i < 50; i++ {
			if v := checkMW(c); v != nil {
				run.Fail(t, c, v)
			}
		}
		return
	}
	run.Rapid(t, 2, 150, 1500, func(rt *rapid.T) {
		c := genMW(rt)
		run.Eval("middleware-concurrent")
		if len(c.Addrs) >= 2 && len(c.Plan) > c.Max*len(c.Addrs) {
			run.NonTrivial(c)
		}
		run.Sample(map[string]any{"kind": "middleware", "max": c.Max, "goroutines": c.Goroutines, "addrs": c.Addrs, "n_requests": len(c.Plan)})
		for rep := 0; rep < 3; rep++ {
			if v := checkMW(c); v != nil {
				run.Fail(rt, c, v)
			}
		}
	})
}

// ---- concurrent first requests after the interval has elapsed: the restart must happen exactly once ----

type RollCase struct {
	Goroutines int  `json:"goroutines"`
	Rounds     int  `json:"rounds"`
	LogFile    bool `json:"log_file"`
	Max        int  `json:"max"`
}

func checkRoll(c RollCase, dir string) *hx.Violation {
	logFile := ""
	if c.LogFile {
		logFile = dir + "/reqlimit.log"
	}
	il, err := app.NewIPRequestLimiter(c.Max, time.Second, t0, "", logFile)
	if err != nil {
		return hx.V("harness", "%v", err)
	}
	now := t0
	for r := 0; r < c.Rounds; r++ {
		now = now.Add(time.Second + time.Millisecond) // the interval has elapsed for every goroutine of this round
		got := make([]int, c.Goroutines)
		oks := make([]bool, c.Goroutines)
		var wg sync.WaitGroup
		start := make(chan struct{})
		for g := 0; g < c.Goroutines; g++ {
			wg.Add(1)
			go func(g int) {
				defer wg.Done()
				<-start
				got[g], _, oks[g] = il.Inc(now, "10.0.0.1")
			}(g)
		}
		close(start)
		// an in-memory counter update returns at once; a call that has not returned after 15 s is stuck on the limiter's own lock
		done := make(chan struct{})
		go func() { wg.Wait(); close(done) }()
		select {
		case <-done:
		case <-time.After(15 * time.Second):
			return hx.V("limiter-call-never-returns", "round %d: of %d concurrent requests right after the interval elapsed (log file: %v) at least one has not returned after 15 s", r, c.Goroutines, c.LogFile)
		}
		nrs := append([]int{}, got...)
		sort.Ints(nrs)
		passed := 0
		for i, n := range nrs {
			if n != i+1 {
				return hx.V("rollover-counters", "round %d: %d concurrent first requests after the interval elapsed got counters %v, expected exactly 1..%d", r, c.Goroutines, nrs, c.Goroutines)
			}
		}
		for g := range oks {
			if oks[g] != (got[g] <= c.Max) {
				return hx.V("rollover-ok", "round %d: counter %d max %d ok=%v", r, got[g], c.Max, oks[g])
			}
			if oks[g] {
				passed++
			}
		}
		if want := min(c.Max, c.Goroutines); passed != want {
			return hx.V("rollover-passed", "round %d: %d requests passed, quota %d", r, passed, want)
		}
		if n := il.Count("10.0.0.1"); n != c.Goroutines {
			return hx.V("rollover-count", "round %d: Count=%d after %d requests in the new interval", r, n, c.Goroutines)
		}
	}
	return nil
}

func TestC20Rollover(t *testing.T) {
	run := hx.Start(t, "C20")
	defer run.Finish()
	dir := t.TempDir()
	if run.Replaying() {
		if run.ReplayTest() != t.Name() {
			return
		}
		var c RollCase
		run.ReplayCase(&c)
		if v := checkRoll(c, dir); v != nil {
			run.Fail(t, c, v)
		}
		return
	}
	run.Rapid(t, 3, 40, 400, func(rt *rapid.T) {
		c := RollCase{Goroutines: rapid.IntRange(2, 12).Draw(rt, "g"), Rounds: rapid.IntRange(5, 40).Draw(rt, "rounds"),
			LogFile: rapid.Bool().Draw(rt, "log"), Max: rapid.IntRange(1, 6).Draw(rt, "max")}
		run.Eval("rollover-concurrent")
		run.NonTrivial(c)
		run.Sample(map[string]any{"kind": "rollover", "goroutines": c.Goroutines, "rounds": c.Rounds, "log_file": c.LogFile, "max": c.Max})
		if v := checkRoll(c, dir); v != nil {
			run.Fail(rt, c, v)
		}
	})
}

// ---- readers against a writer that restarts the interval on every call (race detector is the oracle) ----

func TestC20ReadersVsRestart(t *testing.T) {
	run := hx.Start(t, "C20")
	defer run.Finish()
	if run.Replaying() {
		return
	}
	rounds := run.Pick(20, 300)
	for r := 0; r < rounds; r++ {
		il, err := app.NewIPRequestLimiter(3, time.Nanosecond, t0, "", "")
		if err != nil {
			t.Fatal(err)
		}
		var wg sync.WaitGroup
		stop := make(chan struct{})
		for g := 0; g < 3; g++ {
			wg.Add(1)
			go func() {
				defer wg.Done()
				for {
					select {
					case <-stop:
						return
					default:
						_ = il.EndTime()
						_ = il.Count("10.0.0.1")
					}
				}
			}()
		}
		now := t0
		for i := 0; i < 200; i++ {
			now = now.Add(5 * time.Nanosecond) // past the interval: every call restarts it
			il.Inc(now, "10.0.0.1")
		}
		close(stop)
		wg.Wait()
		run.Eval("race:readers-vs-restart")
		run.NonTrivial(map[string]any{"race-round": r})
	}
	// the same through the real server: /reqcount (reads) against limited requests (writes, interval 1 s)
	cfg := app.DefaultConfig
	cfg.VodRoot = "/repo/cmd/livesim2/app/testdata/assets"
	cfg.RepDataRoot = ""
	cfg.MaxRequests = 5
	cfg.ReqLimitInt = 1
	cfg.TimeoutS = 0
	srv, err := app.SetupServer(context.Background(), &cfg)
	if err != nil {
		t.Fatalf("SetupServer: %v", err)
	}
	dur := time.Duration(run.Pick(1300, 3500)) * time.Millisecond
	deadline := time.Now().Add(dur)
	var wg sync.WaitGroup
	var n atomic.Int64
	for g := 0; g < 4; g++ {
		wg.Add(1)
		go func(g int) {
			defer wg.Done()
			for time.Now().Before(deadline) {
				url := "/reqcount"
				if g%2 == 0 {
					url = "/livesim2/testpic_2s/Manifest.mpd?nowMS=100000"
				}
				req := httptest.NewRequest("GET", url, nil)
				req.RemoteAddr = "10.9.9.9:1000"
				rr := httptest.NewRecorder()
				srv.Router.ServeHTTP(rr, req)
				n.Add(1)
				time.Sleep(200 * time.Microsecond)
			}
		}(g)
	}
	wg.Wait()
	run.Eval("race:reqcount-vs-requests")
	run.Note("http_requests_in_race_phase", n.Load())
}

// ---- the real server: one quota per address whatever limited route is used --------------------------------------

type SrvCase struct {
	Max      int      `json:"max"`
	Addrs    []string `json:"addrs"`
	Requests []SrvReq `json:"requests"`
}

type SrvReq struct {
	Addr  int    `json:"addr"`
	Route string `json:"route"` // livesim2 | vod
	XFF   bool   `json:"xff"`
}

func genSrv(t *rapid.T) SrvCase {
	c := SrvCase{Max: rapid.IntRange(1, 6).Draw(t, "max")}
	for i := rapid.IntRange(1, 3).Draw(t, "naddr"); i > 0; i-- {
		c.Addrs = append(c.Addrs, rapid.SampledFrom([]string{"10.1.2.3", "10.1.2.4", "192.0.2.77", "2001:db8::17", "2001:db8::18"}).Draw(t, "addr"))
	}
	for i := rapid.IntRange(4, 30).Draw(t, "nreq"); i > 0; i-- {
		c.Requests = append(c.Requests, SrvReq{Addr: rapid.IntRange(0, len(c.Addrs)-1).Draw(t, "a"), Route: rapid.SampledFrom([]string{"livesim2", "vod"}).Draw(t, "route"), XFF: rapid.Bool().Draw(t, "xff")})
	}
	return c
}

func checkSrv(c SrvCase) (*hx.Violation, int) {
	srv, err := ls.New(ls.BundledRoot, func(sc *app.ServerConfig) { sc.MaxRequests, sc.ReqLimitInt = c.Max, 3600 })
	if err != nil {
		return hx.V("harness", "%v", err), 0
	}
	count := map[string]int{}
	over := 0
	for i, rq := range c.Requests {
		addr := c.Addrs[rq.Addr]
		url := "/livesim2/testpic_2s/Manifest.mpd?nowMS=100000"
		if rq.Route == "vod" {
			url = "/vod/testpic_2s/Manifest.mpd"
		}
		req := httptest.NewRequest("GET", url, nil)
		if rq.XFF {
			req.RemoteAddr = "203.0.113.9:4711"
			req.Header.Set("X-Forwarded-For", addr)
		} else if strings.Contains(addr, ":") {
			req.RemoteAddr = "[" + addr + "]:4711"
		} else {
			req.RemoteAddr = addr + ":4711"
		}
		// the limiter keys on the forwarded address if present, else on the peer address: both name the client addr
		key := addr
		rr := httptest.NewRecorder()
		srv.S.Router.ServeHTTP(rr, req)
		count[key]++
		want := 200
		if count[key] > c.Max {
			want = 429
			over++
		}
		if rr.Code != want {
			return hx.V("server-quota", "request %d (%s via /%s, forwarded=%v) is request %d of that address in the interval with max %d: status %d, expected %d", i, addr, rq.Route, rq.XFF, count[key], c.Max, rr.Code, want), over
		}
		hdr := rr.Header().Get("Livesim2-Requests")
		if !strings.HasPrefix(hdr, fmt.Sprintf("%d ", count[key])) {
			return hx.V("server-quota-header", "request %d (%s via /%s): header %q, expected counter %d", i, addr, rq.Route, hdr, count[key]), over
		}
	}
	return nil, over
}

func TestC20Server(t *testing.T) {
	run := hx.Start(t, "C20")
	defer run.Finish()
	if run.Replaying() {
		if run.ReplayTest() != t.Name() {
			return
		}
		var c SrvCase
		run.ReplayCase(&c)
		if v, _ := checkSrv(c); v != nil {
			run.Fail(t, c, v)
		}
		return
	}
	run.Rapid(t, 5, 25, 150, func(rt *rapid.T) {
		c := genSrv(rt)
		v, over := checkSrv(c)
		cls := []string{"server"}
		routes := map[string]bool{}
		for _, r := range c.Requests {
			routes[r.Route] = true
		}
		if len(routes) == 2 && over > 0 {
			cls = append(cls, "server:both-routes-over-quota")
			run.NonTrivial(c)
		}
		run.Eval(cls...)
		if v != nil {
			if v.Kind == "harness" {
				rt.Fatalf("HARNESS: %s", v.Msg)
			}
			run.Fail(rt, c, v)
		}
	})
}
