// C01 — looped output is one gap-free, wall-clock-anchored media timeline.
package c01

import (
	"bytes"
	"fmt"
	"os"
	"path/filepath"
	"regexp"
	"strconv"
	"testing"

	"github.com/Eyevinn/mp4ff/mp4"
	"pgregory.net/rapid"
	"verifharness/internal/assetgen"
	"verifharness/internal/env"
	"verifharness/internal/gen"
	"verifharness/internal/hx"
	"verifharness/internal/ls"
	"verifharness/internal/mp4x"
	"verifharness/internal/refmodel"
	"verifharness/internal/vod"
)

type Case struct {
	Target env.Target   `json:"target"`
	RepID  string       `json:"rep"`
	Cfg    refmodel.Cfg `json:"cfg"` // Type is the primary addressing mode
	N      int64        `json:"n"`
	Regime string       `json:"regime"`
}

func genCase(t *rapid.T) (Case, *env.Env) {
	tg := gen.Target(t, assetgen.Opts{AllowText: true, AllowThumb: true, VStart: true}, 35, nil)
	if tg.Layout != nil {
		tg.Layout.ASCodecs = rapid.IntRange(0, 2).Draw(t, "as-codecs") == 0 // @codecs on the AdaptationSet instead of the Representation
	}
	e, err := env.Get(tg)
	if err != nil {
		t.Fatalf("HARNESS: %v", err)
	}
	rep := gen.RepOfKinds(t, e.Asset, "video", "video", "text", "image")
	segMS := int64(e.Asset.LoopMS) / int64(len(e.Asset.Ref.Segs))
	cfg := gen.Cfg(t, []string{"number", "time", "tlnr"}, segMS, false)
	cfg.TsbdS, cfg.HasTsbd = 60, false
	if tg.Layout != nil && tg.Layout.AvgSegMS() < 1000 {
		cfg.Extra = []string{"mup_1"}
	}
	tl := refmodel.NewTimeline(e.Asset, rep, cfg)
	n, regime := gen.Index(t, tl, cfg.StartS)
	return Case{Target: tg, RepID: rep.ID, Cfg: cfg, N: n, Regime: regime}, e
}

var tsRe = regexp.MustCompile(`\d\d+:\d\d:\d\d(\.\d\d\d)?`)

func shiftTTML(data []byte, shiftMS int64) []byte {
	return tsRe.ReplaceAllFunc(data, func(m []byte) []byte {
		s := string(m)
		var ms int64
		if i := bytes.IndexByte(m, '.'); i >= 0 {
			ms, _ = strconv.ParseInt(s[i+1:], 10, 64)
			s = s[:i]
		}
		l := len(s)
		sec, _ := strconv.ParseInt(s[l-2:], 10, 64)
		min, _ := strconv.ParseInt(s[l-5:l-3], 10, 64)
		hrs, _ := strconv.ParseInt(s[:l-6], 10, 64)
		tot := hrs*3600000 + min*60000 + sec*1000 + ms + shiftMS
		return []byte(fmt.Sprintf("%02d:%02d:%02d.%03d", tot/3600000, tot/60000%60, tot/1000%60, tot%1000))
	})
}

type info struct {
	wraps  int64
	tfdt64 bool
}

// availNow is an instant at which live segment n is available: first whole ms at or after A_n, plus 1 ms.
func availNow(tl *refmodel.Timeline, n int64) int64 {
	return gen.CeilDivU(tl.AvailU(n), tl.TS()) + 1
}

func fetch(e *env.Env, tl *refmodel.Timeline, rep *vod.Rep, n int64) (ls.Resp, string) {
	url := ls.URL(tl.Cfg.Parts(), e.Asset.Path, tl.SegName(rep, n), availNow(tl, n))
	return e.Srv.Get(url), url
}

func checkCase(c Case, e *env.Env) (*hx.Violation, info) {
	var inf info
	rep := e.Asset.Reps[c.RepID]
	if rep == nil {
		return hx.V("harness", "unknown rep"), inf
	}
	tl := refmodel.NewTimeline(e.Asset, rep, c.Cfg)
	w, i := tl.Split(c.N)
	inf.wraps = w
	wantStart := tl.Start(c.N)
	inf.tfdt64 = wantStart >= 1<<32
	r, url := fetch(e, tl, rep, c.N)
	if r.Code != 200 {
		return hx.V("status", "%s -> %v, expected 200 (segment n=%d is available)", url, r, c.N), inf
	}
	// (7) the other addressing modes return the same bytes
	for _, typ := range []string{"number", "time", "tlnr"} {
		if typ == c.Cfg.Type {
			continue
		}
		cfg2 := c.Cfg
		cfg2.Type = typ
		tl2 := refmodel.NewTimeline(e.Asset, rep, cfg2)
		r2, url2 := fetch(e, tl2, rep, c.N)
		if r2.Code != 200 {
			return hx.V("status-other-addressing", "%s -> %v, expected 200", url2, r2), inf
		}
		if !bytes.Equal(r.Body, r2.Body) {
			return hx.V("addressing-differs", "%s and %s return different bytes (%d vs %d)", url, url2, len(r.Body), len(r2.Body)), inf
		}
	}
	if rep.ContentType == "image" {
		want, err := os.ReadFile(filepath.Join(e.Asset.Dir, rep.Segs[i].File))
		if err != nil {
			return hx.V("harness", "%v", err), inf
		}
		if !bytes.Equal(want, r.Body) {
			return hx.V("thumbnail-bytes", "%s: not byte-identical to VoD file %s", url, rep.Segs[i].File), inf
		}
		if ct := r.Header.Get("Content-Type"); ct != "image/jpeg" {
			return hx.V("content-type", "%s: %q", url, ct), inf
		}
		return nil, inf
	}
	seg, err := mp4x.Parse(r.Body, rep.Trex)
	if err != nil {
		return hx.V("unparsable", "%s: %v", url, err), inf
	}
	// VoD reference
	vf, err := mp4.ReadMP4File(filepath.Join(e.Asset.Dir, rep.Segs[i].File))
	if err != nil {
		return hx.V("harness", "%v", err), inf
	}
	vodSeg := vf.Segments[0]
	if len(seg.Frags) != len(vodSeg.Fragments) {
		return hx.V("fragments", "%s: %d fragments, VoD has %d", url, len(seg.Frags), len(vodSeg.Fragments)), inf
	}
	offset := wantStart - int64(rep.Segs[i].Start)
	isStpp := len(rep.Codecs) >= 4 && rep.Codecs[:4] == "stpp"
	for k, fr := range seg.Frags {
		if int64(fr.Seq) != tl.Number(c.N) {
			return hx.V("sequence-number", "%s: fragment %d has sequence number %d, expected %d", url, k, fr.Seq, tl.Number(c.N)), inf
		}
		vfr := vodSeg.Fragments[k]
		vt := int64(vfr.Moof.Traf.Tfdt.BaseMediaDecodeTime())
		if int64(fr.Tfdt) != vt+offset {
			return hx.V("tfdt", "%s: fragment %d tfdt %d, expected %d (VoD %d + offset %d; w=%d, i=%d)", url, k, fr.Tfdt, vt+offset, vt, offset, w, i), inf
		}
		vss, err := vfr.GetFullSamples(rep.Trex)
		if err != nil {
			return hx.V("harness", "%v", err), inf
		}
		want := mp4x.FromFull(vss)
		if isStpp {
			if len(want) != 1 || len(fr.Samples) != 1 {
				return hx.V("stpp-samples", "%s: %d samples (VoD %d)", url, len(fr.Samples), len(want)), inf
			}
			shiftMS := (offset*1000*2 + tl.TS()) / (2 * tl.TS()) // round(offset/ts*1000)
			data := want[0].Data
			ttmlLen := len(data)
			var subs *mp4.SubsBox
			for _, ch := range vfr.Moof.Traf.Children {
				if sb, ok := ch.(*mp4.SubsBox); ok {
					subs = sb
				}
			}
			if subs != nil && len(subs.Entries) == 1 && len(subs.Entries[0].SubSamples) > 0 {
				ttmlLen = int(subs.Entries[0].SubSamples[0].SubsampleSize)
			}
			exp := append(shiftTTML(data[:ttmlLen], shiftMS), data[ttmlLen:]...)
			got := fr.Samples[0]
			if !bytes.Equal(got.Data, exp) {
				return hx.V("ttml-shift", "%s: TTML payload is not the VoD payload with every timestamp moved by %d ms\n got: %.300q\nwant: %.300q", url, shiftMS, got.Data, exp), inf
			}
			if int(got.Size) != len(exp) || got.Dur != want[0].Dur {
				return hx.V("stpp-size", "%s: sample size %d dur %d, payload %d bytes, VoD dur %d", url, got.Size, got.Dur, len(exp), want[0].Dur), inf
			}
			continue
		}
		// decode times follow from tfdt: compare with VoD decode times + offset
		for si := range want {
			want[si].DecodeTime = uint64(int64(want[si].DecodeTime) + offset)
		}
		if err := mp4x.SameMedia(fr.Samples, want, true); err != nil {
			return hx.V("samples", "%s: fragment %d: %v", url, k, err), inf
		}
	}
	if seg.Sidx != nil {
		if int64(seg.Sidx.EarliestPresentationTime) != int64(seg.Frags[0].Tfdt) {
			return hx.V("sidx", "%s: sidx earliest_presentation_time %d, tfdt %d", url, seg.Sidx.EarliestPresentationTime, seg.Frags[0].Tfdt), inf
		}
	}
	if int64(seg.End()) != tl.End(c.N) {
		return hx.V("end", "%s: segment ends at %d, model %d", url, seg.End(), tl.End(c.N)), inf
	}
	// (6) segment n+1 begins exactly where n ends (also across the wrap)
	if tl.Number(c.N+1) < 1<<32-1 {
		r3, url3 := fetch(e, tl, rep, c.N+1)
		if r3.Code != 200 {
			return hx.V("status-next", "%s -> %v, expected 200", url3, r3), inf
		}
		nx, err := mp4x.Parse(r3.Body, rep.Trex)
		if err != nil {
			return hx.V("unparsable", "%s: %v", url3, err), inf
		}
		if nx.Start() != seg.End() {
			return hx.V("gap", "segment n=%d ends at %d but n+1 starts at %d (%s)", c.N, seg.End(), nx.Start(), url3), inf
		}
		if int64(nx.Frags[0].Seq) != tl.Number(c.N)+1 {
			return hx.V("sequence-number", "%s: sequence number %d after %d", url3, nx.Frags[0].Seq, tl.Number(c.N)), inf
		}
	}
	return nil, inf
}

func TestC01(t *testing.T) {
	run := hx.Start(t, "C01")
	defer run.Finish()
	if run.Replaying() {
		var c Case
		run.ReplayCase(&c)
		e, err := env.Get(c.Target)
		if err != nil {
			t.Fatalf("HARNESS: %v", err)
		}
		if v, _ := checkCase(c, e); v != nil {
			run.Fail(t, c, v)
		}
		return
	}
	run.Essential("kind:video", "kind:text", "kind:image", "tfdt>=2^32", "wrap-pair", "addr:time", "addr:number", "addr:tlnr")
	run.Rapid(t, 1, 1200, 6000, func(rt *rapid.T) {
		c, e := genCase(rt)
		v, inf := checkCase(c, e)
		rep := e.Asset.Reps[c.RepID]
		cls := []string{"kind:" + rep.ContentType, "addr:" + c.Cfg.Type, "n:" + c.Regime}
		if c.Target.Layout != nil {
			cls = append(cls, "asset:generated")
		} else {
			cls = append(cls, "asset:bundled")
		}
		nt := false
		if inf.wraps >= 1 {
			cls = append(cls, "w>=1")
			nt = true
		}
		if inf.tfdt64 {
			cls = append(cls, "tfdt>=2^32")
			nt = true
		}
		if (c.N+1)%int64(len(e.Asset.Reps[c.RepID].Segs)) == 0 || rep.ContentType == "audio" {
			cls = append(cls, "wrap-pair")
			nt = true
		}
		if c.Cfg.StartS != 0 || c.Cfg.Snr != 0 {
			cls = append(cls, "start/snr!=0")
			nt = true
		}
		if nt {
			run.NonTrivial(c)
		}
		run.Eval(cls...)
		run.Sample(map[string]any{"asset": c.Target.Name(), "rep": c.RepID, "url_parts": c.Cfg.Parts(), "n": c.N, "regime": c.Regime})
		if v != nil {
			if v.Kind == "harness" {
				rt.Fatalf("HARNESS: %s", v.Msg)
			}
			run.Fail(rt, c, v)
		}
	})
}
