package c18

import (
	"encoding/binary"
	"fmt"
	"os"
	"testing"
	"time"
)

func toString(p any) string { return fmt.Sprint(p) }

// FuzzC18 is the coverage-guided companion of TestC18 (thorough tier only; a native fuzz campaign cannot be pinned to
// VERIF_SEED, the saved crasher is the reproducible unit). Input: the raw stream, a read-size pattern and a flag byte.
// The oracle is the same as for the generated cases: the stream-walking model of the statement.
func FuzzC18(f *testing.F) {
	for _, name := range []string{"init.cmfv", "1.cmfv"} {
		if b, err := os.ReadFile("/repo/pkg/chunkparser/testdata/" + name); err == nil {
			f.Add(b, []byte{255, 7, 1}, byte(0))
			f.Add(b[:len(b)/2], []byte{3}, byte(1))
		}
	}
	box := func(typ string, n int) []byte {
		b := make([]byte, 8+n)
		binary.BigEndian.PutUint32(b, uint32(8+n))
		copy(b[4:], typ)
		return b
	}
	cat := func(bs ...[]byte) []byte {
		var o []byte
		for _, b := range bs {
			o = append(o, b...)
		}
		return o
	}
	f.Add(cat(box("styp", 8), box("moof", 40), box("mdat", 100), box("moof", 40), box("mdat", 10)), []byte{1}, byte(0))
	f.Add(cat(box("ftyp", 8), box("moov", 300)), []byte{8, 8, 1}, byte(1))
	f.Add(cat(box("moof", 16), box("mdat", 0), []byte{0, 0, 0}), []byte{5, 9}, byte(2))
	f.Add([]byte{0, 0, 0, 7, 'm', 'd', 'a', 't'}, []byte{2}, byte(0))
	f.Add([]byte{0xff, 0xff, 0xff, 0xf0, 'f', 'r', 'e', 'e', 0, 0, 0, 16, 'm', 'd', 'a', 't', 1, 2, 3, 4, 5, 6, 7, 8}, []byte{4}, byte(0))
	f.Fuzz(func(t *testing.T, s []byte, reads []byte, flags byte) {
		if len(s) > 1<<16 {
			return
		}
		// the parser allocates what a box header declares (DESIGN O6): keep declared sizes below 16 MiB unless they are
		// beyond the 32-bit range (rejected without allocation)
		pos, rel := uint64(0), uint64(0) // rel: offset from the end of the last complete mdat, which is what the parser adds sizes to
		for pos+8 <= uint64(len(s)) {
			sz := uint64(binary.BigEndian.Uint32(s[pos:]))
			if sz < 8 || rel+sz > 0xffffffff {
				break
			}
			if sz >= 1<<24 {
				return
			}
			pos += sz
			rel += sz
			if string(s[pos-sz+4:pos-sz+8]) == "mdat" && pos <= uint64(len(s)) {
				rel = 0
			}
		}
		c := Case{Truncate: -1, ReadErrAt: -1, CbErrAt: -1, InitBuf: int(flags>>4) * 64, DataEOF: flags&1 != 0}
		for _, r := range reads {
			c.Reads = append(c.Reads, int(r)+1)
		}
		if len(c.Reads) == 0 {
			c.Reads = []int{4096}
		}
		if flags&2 != 0 && len(s) > 0 {
			c.ReadErrAt = int(flags>>2) * len(s) / 64
		}
		if flags&4 != 0 {
			c.CbErrAt = int(flags>>5) % 3
		}
		done := make(chan struct{})
		var msg string
		go func() {
			defer close(done)
			defer func() {
				if p := recover(); p != nil {
					msg = "panic: " + toString(p)
				}
			}()
			if v, _ := checkStream(c, s); v != nil {
				msg = v.Kind + ": " + v.Msg
			}
		}()
		select {
		case <-done:
			if msg != "" {
				t.Fatalf("VERIF-FAIL %s (reads %v, flags %#x)", msg, c.Reads, flags)
			}
		case <-time.After(20 * time.Second):
			t.Fatalf("VERIF-FAIL does-not-terminate: Parse still running after 20 s on a %d byte stream", len(s))
		}
	})
}
