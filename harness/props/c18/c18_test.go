// C18 — chunk parser output does not depend on how the bytes arrive.
package c18

import (
	"bytes"
	"encoding/binary"
	"errors"
	"fmt"
	"io"
	"math"
	"os"
	"runtime"
	"testing"
	"time"

	"github.com/Dash-Industry-Forum/livesim2/pkg/chunkparser"
	"pgregory.net/rapid"
	"verifharness/internal/hx"
)

// Box is one top-level box of a generated stream.
type Box struct {
	Type    string `json:"type"`
	Payload int    `json:"payload"`         // payload length in the stream
	Size    *int64 `json:"size,omitempty"`  // declared size if it is not 8+Payload (corrupt / truncated)
	Fill    byte   `json:"fill"`            // payload byte pattern seed
	Real    string `json:"real,omitempty"`  // take the bytes from a bundled file instead
}

type Case struct {
	Boxes      []Box `json:"boxes"`
	Trailing   int   `json:"trailing"`            // extra bytes after the last box (less than a header, or garbage)
	Truncate   int   `json:"truncate"`            // cut the stream to this length (-1: no)
	Reads      []int `json:"reads"`               // read sizes, cycled
	DataEOF    bool  `json:"data_with_eof"`       // the last read returns its data together with io.EOF
	ReadErrAt  int   `json:"read_err_at"`         // inject a read error once this many bytes were delivered (-1: no)
	CbErrAt    int   `json:"cb_err_at"`           // callback number that returns an error (-1: no)
	// ReadErrOnce: the reader reports the injected error once and delivers the rest of the stream if it is asked again
	// (a timeout-like error); Parse must return the error all the same
	ReadErrOnce bool `json:"read_err_once,omitempty"`
	// ReadErrWithData: the failing Read call also delivers the bytes before the failing position (n > 0 together with the error)
	ReadErrWithData bool `json:"read_err_with_data,omitempty"`
	// ReadErrWrapsEOF: the injected error wraps io.EOF ("connection reset: EOF"): it is not a clean end of input
	ReadErrWrapsEOF bool `json:"read_err_wraps_eof,omitempty"`
	InitBuf    int   `json:"init_buf"`            // initial buffer size
	WellFormed bool  `json:"well_formed"`
}

var realFiles = map[string][]byte{}

func real(name string) []byte {
	if b, ok := realFiles[name]; ok {
		return b
	}
	b, err := os.ReadFile("/repo/pkg/chunkparser/testdata/" + name)
	if err != nil {
		panic(err)
	}
	realFiles[name] = b
	return b
}

func (c Case) stream() []byte {
	var out []byte
	for _, b := range c.Boxes {
		if b.Real != "" {
			out = append(out, real(b.Real)...)
			continue
		}
		size := int64(8 + b.Payload)
		if b.Size != nil {
			size = *b.Size
		}
		hdr := make([]byte, 8)
		binary.BigEndian.PutUint32(hdr, uint32(size))
		copy(hdr[4:], b.Type)
		out = append(out, hdr...)
		out = append(out, payload(b)...)
	}
	// trailing bytes look like the start of a small box (declared size 0x0110) that never completes; sizes of
	// gigabytes taken from garbage are outside the in-process domain (allocation from a 4-byte field, see DESIGN)
	tr := []byte{0x00, 0x00, 0x01, 0x10, 'f', 'r', 'e', 'e'}
	for i := 0; i < c.Trailing; i++ {
		if i < len(tr) {
			out = append(out, tr[i])
		} else {
			out = append(out, byte(0xF0+i))
		}
	}
	if c.Truncate >= 0 && c.Truncate < len(out) {
		out = out[:c.Truncate]
	}
	return out
}

// payload builds a box payload. mdat payloads are arbitrary bytes that contain the strings "moov" and "mdat" and
// high bytes (the parser must never scan or interpret them). Payloads of all other boxes are a sequence of well-formed
// child boxes (among them children called "mdat" and "moov"), so that a corrupted size field that makes the parser
// descend into a container still lands on box boundaries: garbage is never interpreted as a (gigabyte) size.
func payload(b Box) []byte {
	out := make([]byte, 0, b.Payload)
	if b.Type == "mdat" {
		for i := 0; i < b.Payload; i++ {
			out = append(out, "moov\xffmdat\xfe\x00"[(i+int(b.Fill))%11])
		}
		return out
	}
	left := b.Payload
	kids := []string{"mvhd", "mdat", "trak", "moov", "free"}
	k := int(b.Fill)
	for left >= 8 {
		sz := 8 + (k*5)%24
		if left-sz < 8 {
			sz = left
		}
		hdr := make([]byte, sz)
		binary.BigEndian.PutUint32(hdr, uint32(sz))
		copy(hdr[4:], kids[k%len(kids)])
		out = append(out, hdr...)
		left -= sz
		k++
	}
	for ; left > 0; left-- {
		out = append(out, 0)
	}
	return out
}

func genCase(t *rapid.T) Case {
	c := Case{Truncate: -1, ReadErrAt: -1, CbErrAt: -1, WellFormed: true}
	if rapid.IntRange(0, 3).Draw(t, "init?") == 0 {
		switch rapid.SampledFrom([]string{"real-video", "real-audio", "synthetic"}).Draw(t, "initkind") {
		case "real-video":
			c.Boxes = append(c.Boxes, Box{Real: "video_init.mp4"})
		case "real-audio":
			c.Boxes = append(c.Boxes, Box{Real: "audio_init.mp4"})
		default:
			c.Boxes = append(c.Boxes, Box{Type: "ftyp", Payload: rapid.IntRange(0, 24).Draw(t, "ftyp")}, Box{Type: "moov", Payload: rapid.IntRange(0, 700).Draw(t, "moov"), Fill: 3})
		}
	}
	k := rapid.IntRange(0, 5).Draw(t, "chunks")
	if len(c.Boxes) == 0 && k == 0 {
		k = 1
	}
	if rapid.IntRange(0, 5).Draw(t, "realseg?") == 0 {
		c.Boxes = append(c.Boxes, Box{Real: "3_chunked.m4s"})
	}
	for i := 0; i < k; i++ {
		if rapid.IntRange(0, 2).Draw(t, "styp?") == 0 {
			c.Boxes = append(c.Boxes, Box{Type: rapid.SampledFrom([]string{"styp", "prft", "emsg", "sidx", "free"}).Draw(t, "pre"), Payload: rapid.IntRange(0, 40).Draw(t, "prelen"), Fill: byte(i)})
		}
		c.Boxes = append(c.Boxes, Box{Type: "moof", Payload: rapid.IntRange(8, 300).Draw(t, "mooflen"), Fill: byte(2 * i)})
		plen := rapid.SampledFrom([]int{0, 1, 7, 8, 100, 1000, 5000}).Draw(t, "mdatlen")
		plen += rapid.IntRange(0, 50).Draw(t, "mdatextra")
		c.Boxes = append(c.Boxes, Box{Type: "mdat", Payload: plen, Fill: byte(i + 1)})
	}
	switch rapid.SampledFrom([]string{"none", "none", "none", "trailing", "truncate", "corrupt-size"}).Draw(t, "damage") {
	case "trailing":
		c.Trailing = rapid.IntRange(1, 30).Draw(t, "trailing")
		c.WellFormed = c.Trailing < 8 == false && false
	case "truncate":
		n := len(c.stream())
		if n > 1 {
			c.Truncate = rapid.IntRange(1, n-1).Draw(t, "cut")
			c.WellFormed = false
		}
	case "corrupt-size":
		var idx []int
		for i, b := range c.Boxes {
			if b.Real == "" {
				idx = append(idx, i)
			}
		}
		if len(idx) > 0 {
			i := rapid.SampledFrom(idx).Draw(t, "which")
			var sz int64
			full := int64(8 + c.Boxes[i].Payload)
			last := i == len(c.Boxes)-1
			kinds := []string{"small", "small", "header-only"}
			// offset of box i, and whether an mdat precedes it (the parser counts offsets from the end of the last complete mdat)
			off, mdatBefore := int64(0), false
			for j := 0; j < i; j++ {
				if c.Boxes[j].Real != "" {
					off += int64(len(real(c.Boxes[j].Real)))
					mdatBefore = mdatBefore || c.Boxes[j].Real == "3_chunked.m4s"
				} else {
					off += int64(8 + c.Boxes[j].Payload)
					mdatBefore = mdatBefore || c.Boxes[j].Type == "mdat"
				}
			}
			if off > 0 && !mdatBefore {
				kinds = append(kinds, "wrap", "wrap")
			}
			if last {
				kinds = append(kinds, "plus", "big")
			} else if c.Boxes[i+1].Real == "" {
				kinds = append(kinds, "swallow-next")
			}
			switch rapid.SampledFrom(kinds).Draw(t, "sizekind") {
			case "small":
				sz = int64(rapid.IntRange(0, 7).Draw(t, "sz"))
			case "header-only": // the parser descends into the box: its children are parsed as top-level boxes
				sz = 8
				if c.Boxes[i].Type == "mdat" || c.Boxes[i].Payload < 8 {
					sz = int64(rapid.IntRange(0, 7).Draw(t, "sz"))
				}
			case "wrap": // offset + size runs (just) past 2^32: a 32-bit sum would wrap around to an earlier offset
				sz = (int64(1) << 32) - off + int64(rapid.SampledFrom([]int{0, 0, 8, 16, int(off)}).Draw(t, "back"))
				if sz > 0xffffffff {
					sz = 0xffffffff
				}
			case "plus": // last box longer than the stream
				sz = full + int64(rapid.IntRange(1, 64).Draw(t, "d"))
			case "swallow-next": // the box claims the following box as well
				sz = full + int64(8+c.Boxes[i+1].Payload)
				if c.Boxes[i+1].Size != nil {
					sz = full
				}
			default:
				sz = int64(rapid.SampledFrom([]int{1 << 16, 1 << 20, 1 << 24}).Draw(t, "bigsz"))
				if sz <= full {
					sz = full + 1
				}
			}
			c.Boxes[i].Size = &sz
			c.WellFormed = false
		}
	}
	if c.Trailing > 0 {
		c.WellFormed = false
	}
	n := len(c.stream())
	nr := rapid.IntRange(1, 6).Draw(t, "nreads")
	switch rapid.SampledFrom([]string{"one-byte", "small", "mixed", "all"}).Draw(t, "readkind") {
	case "one-byte":
		c.Reads = []int{1}
	case "small":
		for i := 0; i < nr; i++ {
			c.Reads = append(c.Reads, rapid.IntRange(1, 9).Draw(t, "r"))
		}
	case "mixed":
		for i := 0; i < nr; i++ {
			c.Reads = append(c.Reads, rapid.SampledFrom([]int{1, 3, 4, 7, 8, 9, 64, 1000, 100000}).Draw(t, "r"))
		}
	default:
		c.Reads = []int{n + 1}
	}
	c.DataEOF = rapid.Bool().Draw(t, "dataeof")
	c.InitBuf = rapid.SampledFrom([]int{0, 1, 8, 64, 1024, 65536}).Draw(t, "initbuf")
	switch rapid.IntRange(0, 9).Draw(t, "fault") {
	case 0:
		c.ReadErrAt = rapid.IntRange(0, n).Draw(t, "readerr")
		c.ReadErrOnce = rapid.Bool().Draw(t, "readerr-once")
		c.ReadErrWithData = rapid.Bool().Draw(t, "readerr-with-data")
		c.ReadErrWrapsEOF = rapid.IntRange(0, 2).Draw(t, "readerr-wraps-eof") == 0
	case 1:
		c.CbErrAt = rapid.IntRange(0, 3).Draw(t, "cberr")
	}
	return c
}

var errInjected = errors.New("injected read error")

// errInjectedEOF is a read error that wraps io.EOF (and errInjected, so that one errors.Is serves both)
var errInjectedEOF = fmt.Errorf("connection reset (%w): %w", errInjected, io.EOF)
var errCallback = errors.New("injected callback error")

type partReader struct {
	data      []byte
	pos       int
	reads     []int
	i         int
	dataEOF   bool
	errAt     int
	errOnce   bool
	errGiven  bool
	errWithData bool
	errValue    error
	readCalls int
	boundaryInHeader bool
	headerOffsets    map[int]bool
}

func (r *partReader) Read(p []byte) (int, error) {
	r.readCalls++
	if r.readCalls > 10_000_000 {
		panic("reader called 10^7 times: parser does not terminate")
	}
	if r.errAt >= 0 && r.pos >= r.errAt && !(r.errOnce && r.errGiven) {
		r.errGiven = true
		return 0, r.errValue
	}
	if r.pos >= len(r.data) {
		return 0, io.EOF
	}
	n := r.reads[r.i%len(r.reads)]
	r.i++
	if n > len(p) {
		n = len(p)
	}
	if n > len(r.data)-r.pos {
		n = len(r.data) - r.pos
	}
	if r.errAt >= 0 && r.pos+n > r.errAt && !r.errGiven {
		n = r.errAt - r.pos
	}
	copy(p, r.data[r.pos:r.pos+n])
	r.pos += n
	if r.headerOffsets[r.pos] {
		r.boundaryInHeader = true
	}
	if r.errWithData && r.errAt >= 0 && r.pos == r.errAt && n > 0 && !r.errGiven {
		r.errGiven = true
		return n, r.errValue // the error comes with the last bytes before the failing position
	}
	if r.dataEOF && r.pos >= len(r.data) && n > 0 && (r.errAt < 0 || r.errAt > r.pos) {
		return n, io.EOF
	}
	return n, nil
}

type cbRec struct {
	Data  []byte
	Init  bool
	Start uint32
	Pos   int // bytes consumed from the reader when the callback was made
}

// model walks the boxes of the whole stream (written from the statement): a callback at the end of every complete
// mdat box, trailing bytes at end of input, init flag once a top-level moov header has been seen.
// impossible reports a box with size < 8 (then only termination and "error or everything delivered" are required).
func model(s []byte) (cbs []cbRec, impossible bool, headerInside map[int]bool) {
	headerInside = map[int]bool{}
	pos, chunkStart := 0, 0
	init := false
	for pos+8 <= len(s) {
		size := int(binary.BigEndian.Uint32(s[pos:]))
		typ := string(s[pos+4 : pos+8])
		for k := 1; k < 8; k++ {
			headerInside[pos+k] = true
		}
		if size < 8 || uint64(pos)+uint64(size) > math.MaxUint32 {
			// a box that cannot exist (also: one that ends beyond the 32-bit offsets the parser reports in ChunkData.Start)
			return cbs, true, headerInside
		}
		if typ == "moov" {
			init = true
		}
		end := pos + size
		if end > len(s) {
			break // incomplete box: delivered as trailing data at end of input
		}
		if typ == "mdat" {
			cbs = append(cbs, cbRec{Data: s[chunkStart:end], Init: init, Start: uint32(chunkStart)})
			chunkStart = end
		}
		pos = end
	}
	if chunkStart < len(s) {
		cbs = append(cbs, cbRec{Data: s[chunkStart:], Init: init, Start: uint32(chunkStart)})
	}
	return cbs, false, headerInside
}

type info struct {
	chunks           int
	boundaryInHeader bool
	impossible       bool
}

func runParser(c Case, s []byte) (got []cbRec, err error, rd *partReader, bufLen int, elapsed time.Duration) {
	_, _, hdr := model(s)
	rd = &partReader{data: s, reads: c.Reads, dataEOF: c.DataEOF, errAt: c.ReadErrAt, errOnce: c.ReadErrOnce, errWithData: c.ReadErrWithData, errValue: errInjected, headerOffsets: hdr}
	if c.ReadErrWrapsEOF {
		rd.errValue = errInjectedEOF
	}
	calls := 0
	cb := func(cd chunkparser.ChunkData) error {
		if calls == c.CbErrAt {
			calls++
			return errCallback
		}
		calls++
		d := make([]byte, len(cd.Data))
		copy(d, cd.Data)
		got = append(got, cbRec{Data: d, Init: cd.IsInitSegment, Start: cd.Start, Pos: rd.pos})
		return nil
	}
	p := chunkparser.NewMP4ChunkParser(rd, make([]byte, c.InitBuf), cb)
	t0 := time.Now()
	err = p.Parse()
	return got, err, rd, len(p.GetBuffer()), time.Since(t0)
}

func checkCase(c Case) (*hx.Violation, info) { return checkStream(c, c.stream()) }

// checkStream judges the parser on the byte stream s delivered as the case prescribes (reads, faults).
func checkStream(c Case, s []byte) (*hx.Violation, info) {
	var inf info
	want, impossible, _ := model(s)
	inf.impossible = impossible
	inf.chunks = len(want)
	got, err, rd, bufLen, _ := runParser(c, s)
	inf.boundaryInHeader = rd.boundaryInHeader
	var all []byte
	for _, g := range got {
		all = append(all, g.Data...)
	}
	// faults first: injected errors must be returned, what was delivered must be a prefix of the input
	if c.ReadErrAt >= 0 && c.ReadErrAt < len(s) || (c.ReadErrAt >= 0 && c.ReadErrAt == len(s) && rd.readCalls > 0 && err != nil) {
		if c.CbErrAt >= 0 && errors.Is(err, errCallback) {
			return nil, inf
		}
		if !errors.Is(err, errInjected) {
			// the parser may legitimately never have reached the failing position if a callback failed first or an impossible box stopped it
			if !(impossible && err != nil) {
				return hx.V("read-error-not-returned", "read error injected after %d bytes, Parse returned %v", c.ReadErrAt, err), inf
			}
		}
		if !bytes.HasPrefix(s, all) {
			return hx.V("data-not-prefix", "callback data is not a prefix of the input after a read error"), inf
		}
		return nil, inf
	}
	if c.CbErrAt >= 0 {
		// a callback error is returned if that callback was made at all
		nCalls := len(want)
		if impossible {
			if err == nil && !bytes.Equal(all, s) && c.CbErrAt >= len(got) {
				// fallthrough to generic check below
			} else {
				return nil, inf
			}
		} else if c.CbErrAt < nCalls {
			if !errors.Is(err, errCallback) {
				return hx.V("callback-error-not-returned", "callback %d returned an error, Parse returned %v", c.CbErrAt, err), inf
			}
			return nil, inf
		}
	}
	if impossible {
		// box with size < 8: parsing must terminate (it did), and either report an error or deliver everything
		if err == nil && !bytes.Equal(all, s) {
			return hx.V("impossible-size-data-lost", "box with size < 8: Parse returned nil but delivered %d of %d bytes", len(all), len(s)), inf
		}
		if !bytes.HasPrefix(s, all) {
			return hx.V("data-not-prefix", "callback data is not a prefix of the input"), inf
		}
		return nil, inf
	}
	if err != nil {
		return hx.V("unexpected-error", "Parse returned %v on a stream without faults", err), inf
	}
	if !bytes.Equal(all, s) {
		return hx.V("concatenation", "callback data concatenated is %d bytes, input %d bytes (first difference at %d)", len(all), len(s), firstDiff(all, s)), inf
	}
	if len(got) != len(want) {
		return hx.V("callback-boundaries", "%d callbacks, the stream has %d (one per complete mdat%s); got sizes %v want %v", len(got), len(want), trailingNote(want, s), sizes(got), sizes(want)), inf
	}
	for i := range want {
		if len(got[i].Data) != len(want[i].Data) {
			return hx.V("callback-boundaries", "callback %d has %d bytes, expected %d (sizes %v vs %v)", i, len(got[i].Data), len(want[i].Data), sizes(got), sizes(want)), inf
		}
		if got[i].Init != want[i].Init {
			return hx.V("init-flag", "callback %d: IsInitSegment=%v, a movie box was seen before its end: %v (reads %v, data+EOF %v)", i, got[i].Init, want[i].Init, c.Reads, c.DataEOF), inf
		}
		// "delivered as soon as it is complete": when the callback for a chunk is made, nothing beyond its last byte has
		// been requested from the reader (on a live stream a read-ahead would wait for the next chunk)
		if end := int(want[i].Start) + len(want[i].Data); got[i].Pos != end {
			return hx.V("delivered-late", "callback %d (chunk ends at byte %d) was made after %d bytes had been read", i, end, got[i].Pos), inf
		}
		if got[i].Start != want[i].Start {
			return hx.V("start-offset", "callback %d: Start=%d, chunk starts at offset %d", i, got[i].Start, want[i].Start), inf
		}
	}
	if c.WellFormed && bufLen > len(s)+c.InitBuf+2048 {
		return hx.V("buffer-growth", "buffer grew to %d bytes for a well-formed stream of %d bytes (initial %d)", bufLen, len(s), c.InitBuf), inf
	}
	return nil, inf
}

func trailingNote(w []cbRec, s []byte) string { return "" }

func firstDiff(a, b []byte) int {
	for i := 0; i < len(a) && i < len(b); i++ {
		if a[i] != b[i] {
			return i
		}
	}
	if len(a) < len(b) {
		return len(a)
	}
	return len(b)
}

func sizes(c []cbRec) []int {
	out := make([]int, len(c))
	for i := range c {
		out[i] = len(c[i].Data)
	}
	return out
}

// checkWithDeadline runs checkCase in a goroutine: a parser that spins is reported instead of hanging the run.
func checkWithDeadline(c Case) (*hx.Violation, info) {
	type res struct {
		v   *hx.Violation
		inf info
	}
	ch := make(chan res, 1)
	go func() {
		defer func() {
			if p := recover(); p != nil {
				ch <- res{v: hx.V("panic-or-spin", "%v", p)}
			}
		}()
		v, inf := checkCase(c)
		ch <- res{v, inf}
	}()
	select {
	case r := <-ch:
		return r.v, r.inf
	case <-time.After(20 * time.Second):
		// confirm: still no result after a generous bound for an input of a few KiB (typical cost < 1 ms)
		return hx.V("does-not-terminate", "Parse still running after 20 s on a %d byte stream (goroutines: %d)", len(c.stream()), runtime.NumGoroutine()), info{}
	}
}

func TestC18(t *testing.T) {
	run := hx.Start(t, "C18")
	defer run.Finish()
	if run.Replaying() {
		var c Case
		run.ReplayCase(&c)
		if v, _ := checkWithDeadline(c); v != nil {
			run.Fail(t, c, v)
		}
		return
	}
	run.Essential("read-boundary-inside-header", ">=2-chunks", "truncated", "impossible-size", "data-with-eof", "init")
	run.Rapid(t, 1, 30000, 150000, func(rt *rapid.T) {
		c := genCase(rt)
		v, inf := checkWithDeadline(c)
		cls := []string{}
		if inf.boundaryInHeader {
			cls = append(cls, "read-boundary-inside-header")
		}
		if inf.chunks >= 2 {
			cls = append(cls, ">=2-chunks")
		}
		if c.Truncate >= 0 {
			cls = append(cls, "truncated")
		}
		if inf.impossible {
			cls = append(cls, "impossible-size")
		}
		if c.DataEOF {
			cls = append(cls, "data-with-eof")
		}
		if c.ReadErrAt >= 0 {
			cls = append(cls, "read-error")
		}
		if c.CbErrAt >= 0 {
			cls = append(cls, "callback-error")
		}
		for _, b := range c.Boxes {
			if b.Type == "moov" || b.Real == "video_init.mp4" || b.Real == "audio_init.mp4" {
				cls = append(cls, "init")
				break
			}
		}
		if inf.chunks >= 2 && inf.boundaryInHeader {
			run.NonTrivial(c)
		}
		run.Eval(cls...)
		run.Sample(map[string]any{"boxes": summarize(c.Boxes), "trailing": c.Trailing, "truncate": c.Truncate, "reads": c.Reads, "data_with_eof": c.DataEOF, "init_buf": c.InitBuf, "read_err_at": c.ReadErrAt, "cb_err_at": c.CbErrAt})
		if v != nil {
			run.Fail(rt, c, v)
		}
	})
}

func summarize(bs []Box) []string {
	var out []string
	for _, b := range bs {
		switch {
		case b.Real != "":
			out = append(out, "file:"+b.Real)
		case b.Size != nil:
			out = append(out, fmt.Sprintf("%s(%d,size=%d)", b.Type, b.Payload, *b.Size))
		default:
			out = append(out, fmt.Sprintf("%s(%d)", b.Type, b.Payload))
		}
	}
	return out
}
