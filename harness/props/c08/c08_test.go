// C08 — no request can crash a handler or make it spin (livesim2 server part; the receiver part is in c08rx_test.go).
package c08

import (
	"bytes"
	"fmt"
	"net/http"
	"net/http/httptest"
	"regexp"
	"runtime/debug"
	"sort"
	"strconv"
	"strings"
	"sync"
	"testing"
	"time"

	"github.com/Dash-Industry-Forum/livesim2/cmd/livesim2/app"
	"github.com/go-chi/chi/v5"
	"pgregory.net/rapid"
	"verifharness/internal/hx"
	"verifharness/internal/ls"
)

type Req struct {
	Method string            `json:"method"`
	URL    string            `json:"url"`
	Body   string            `json:"body,omitempty"`
	Header map[string]string `json:"header,omitempty"`
	NoDRM  bool              `json:"no_drm_config,omitempty"` // send to the server started without a DRM configuration
	// Expect: "" (no panic, terminates, deliberate status) | "4xx" | "404"
	Expect string `json:"expect,omitempty"`
	Why    string `json:"why,omitempty"`
}

// ---- panic-transparent router -------------------------------------------------------------------------

type plainRouter struct {
	mux *chi.Mux
}

var skipPrefixes = []string{"/debug", "/metrics", "/player"}

func newPlainRouter(s *app.Server) (*plainRouter, int, error) {
	mux := chi.NewRouter()
	n := 0
	seen := map[string]bool{}
	err := chi.Walk(s.Router, func(method, route string, h http.Handler, _ ...func(http.Handler) http.Handler) error {
		for _, p := range skipPrefixes {
			if strings.HasPrefix(route, p) {
				return nil
			}
		}
		route = strings.ReplaceAll(route, "/*/", "/") // mounted sub-routers are reported as /livesim2/*/*
		if seen[method+" "+route] {
			return nil
		}
		seen[method+" "+route] = true
		mux.Method(method, route, h)
		n++
		return nil
	})
	return &plainRouter{mux: mux}, n, err
}

type result struct {
	code     int
	body     []byte
	panicVal any
	stack    string
	timedOut bool
}

func (p *plainRouter) do(r Req, bound time.Duration) result {
	var res result
	done := make(chan struct{})
	go func() {
		defer close(done)
		defer func() {
			if v := recover(); v != nil {
				res.panicVal = v
				res.stack = string(debug.Stack())
			}
		}()
		target := "http://livesim.test" + strings.ReplaceAll(r.URL, " ", "%20")
		req, err := http.NewRequest(r.Method, target, bytes.NewReader([]byte(r.Body)))
		if err != nil {
			res.code = -1 // not a request any client could send (e.g. invalid percent escape): nothing to judge
			return
		}
		req.RemoteAddr = "192.0.2.1:1234"
		req.RequestURI = req.URL.RequestURI()
		for k, v := range r.Header {
			req.Header.Set(k, v)
		}
		rr := httptest.NewRecorder()
		p.mux.ServeHTTP(rr, req)
		res.code, res.body = rr.Code, rr.Body.Bytes()
	}()
	select {
	case <-done:
	case <-time.After(bound):
		res.timedOut = true
	}
	return res
}

var (
	setupOnce          sync.Once
	withDRM, withoutDRM *plainRouter
	nRoutes            int
	setupErr           error
)

func routers() (*plainRouter, *plainRouter, error) {
	setupOnce.Do(func() {
		s1, err := ls.Bundled()
		if err != nil {
			setupErr = err
			return
		}
		withDRM, nRoutes, setupErr = newPlainRouter(s1.S)
		if setupErr != nil {
			return
		}
		s2, err := ls.New(ls.BundledRoot)
		if err != nil {
			setupErr = err
			return
		}
		withoutDRM, _, setupErr = newPlainRouter(s2.S)
	})
	return withDRM, withoutDRM, setupErr
}

// ---- generators ---------------------------------------------------------------------------------------

var intKeys = []string{"start", "ast", "stop", "startrel", "stoprel", "dur", "init", "tsbd", "mup", "periods", "xlink", "etp", "etpDuration", "peroff", "scte35", "snr", "ltgt", "spd", "timesubsdur", "timesubsreg", "patch"}
var floatKeys = []string{"timeoffset", "ato", "chunkdur"}
var flagKeys = []string{"tfdt", "cont", "insertad", "continuous", "segtimeline", "segtimelinenr", "sidx", "segtimelineloss"}
var listKeys = []string{"utc", "timesubsstpp", "timesubswvtt", "statuscode", "traffic", "drm", "eccp", "annexI", "modulo"}

var hostileNums = []string{"", "0", "-1", "1", "2", "7", "60", "3600", "3601", "2147483648", "4294967296", "9223372036854775807", "9223372036854775808",
	"999999999999999999999999999999", "abc", "1.5", "0.5", "1e300", "1e-300", "NaN", "inf", "-inf", "0x10", " 1", "1 ", "%00", "%zz", "1/2", "+5", "1_000", "-0", "١٢"}

var hostileLists = map[string][]string{
	"utc":          {"", "ntp", "keep", "keep-ntp", "direct-head", "none", "bogus", "ntp-", "-", "httpxsdate-httpiso-sntp"},
	"timesubsstpp": {"", "en", "en,sv", ",", "en,,sv", "a/b", "../x", strings.Repeat("x", 300)},
	"timesubswvtt": {"", "en", "en,sv", ",", "xx"},
	"statuscode":   {"", "[]", "[{}]", "[{cycle:30,rsq:0,code:404}]", "[{cycle:0,rsq:0,code:404}]", "[{cycle:-5,rsq:0,code:404}]", "[{rsq:0,code:404}]", "[{cycle:30,rsq:-1,code:404}]", "[{cycle:30,rsq:0,code:200}]", "[{cycle:30,rsq:0,code:404,rep:V300}]", "[{cycle:30,rsq:0,code:404,rep:A,B}]", "[{cycle:30;rsq:0}]", "x", "[{cycle:30,rsq:0,code:404},{cycle:1,rsq:9,code:500}]", "[{cycle:4,rsq:0,code:410}]", "[{cycle:1,rsq:0,code:404}]", "[{cycle:3,rsq:1,code:503,rep:V300}]", "[{cycle:7,rsq:0,code:404}]", "[{cycle:abc,rsq:0,code:404}]", "[{cycle:99999999999999999999,rsq:0,code:404}]"},
	"traffic":      {"", "u20d10", "u20d10,u5d5", ",", "u", "d0", "u0d0", "x5", "u20d10,", ",u5", "u-5", "u99999999999999999999", "20u"},
	"drm":          {"", "foo", "EZDRM-1-key-cbcs-test", "EZDRM-2-keys-cbcs-test", "eccp-cenc", "None"},
	"eccp":         {"", "cenc", "cbcs", "foo", "CENC"},
	"annexI":       {"", "a=1", "a=1,b=2", "abc", "a=1=2", "=", ",", "a=,b", "a=1,a=2", "a=1,b=3,a=3", "a=1,a=1,a=1"},
	"modulo":       {"10"},
}

var assets = []string{"testpic_2s", "testpic_2s", "testpic_8s", "testpic_alt_seg_dur_stl", "bbb_hevc_ac3_8s", "WAVE/vectors/cfhd_sets/12.5_25_50/t3/2022-10-17", "nosuch", "testpic", "testpic_2s_x", ""}

var files = []string{"Manifest.mpd", "Manifest.mpd", "Manifest_thumbs.mpd", "Manifest_imsc1.mpd", "Nope.mpd", ".mpd", "V300/init.mp4", "A48/init.mp4", "V300/$N$.m4s", "A48/$N$.m4s", "V300/$N$.m4s",
	"imsc1_txt_sv/$N$.m4s", "thumbs/$N$.jpg", "NoRep/$N$.m4s", "V300/$N$.xyz", "V300/$N$.cmfv", "timestpp-en/$N$.m4s", "timestpp-en/init.mp4", "timestpp-xx/init.mp4", "timewvtt-sv/$N$.m4s",
	"bu0/V300/$N$.m4s", "bu1/V300/$N$.m4s", "bu2/V300/$N$.m4s", "bu2/A48/$N$.m4s", "bu3/V300/$N$.m4s", "bu5/V300/$N$.m4s", "bu-1/V300/$N$.m4s", "bux/V300/$N$.m4s", "V300/", "V300", "", "..%2f..%2fetc/passwd.mp4", "video_$N$.m4s", "1/$N$.m4s", "eccp.json"}

var segNums = []string{"0", "1", "2", "3", "10", "100", "498", "499", "500", "501", "4294967295", "4294967296", "4294967297", "18446744073709551616", "99999999999999999999", "-1", "abc", "1.5", "", "90000000", "89820000", "45000000", "44999999", "180000"}

const fixedNow = 1_000_000 // ms; segment number 500 of a 2 s asset ends exactly here

func benignParts(t *rapid.T) []string {
	var p []string
	if rapid.Bool().Draw(t, "tl") {
		p = append(p, rapid.SampledFrom([]string{"segtimeline_1", "segtimelinenr_1"}).Draw(t, "tltype"))
	}
	for _, cand := range []string{"tsbd_300", "snr_3", "start_100", "ato_1.5", "timesubsstpp_en,sv", "timesubswvtt_en", "scte35_2", "periods_60", "continuous_1", "eccp_cenc", "patch_60", "mup_2", "utc_ntp-sntp", "ltgt_2000", "chunkdur_0.5", "traffic_u5d5,d3u3", "statuscode_[{cycle:30,rsq:0,code:404}]", "timesubsdur_500", "stop_900", "startrel_-20", "stoprel_20"} {
		if rapid.IntRange(0, 9).Draw(t, "b") == 0 {
			p = append(p, cand)
		}
	}
	return p
}

func atoi(s string) (int, bool) { n, err := strconv.Atoi(s); return n, err == nil }

// classify returns the expectation for a hostile (key,value) pair: "4xx" for malformed values and documented out-of-range values.
func classify(key, val string) (string, string) {
	isInt := func(k string) bool {
		for _, x := range intKeys {
			if x == k {
				return true
			}
		}
		return false
	}
	if strings.Contains(val, "%") || strings.ContainsAny(val, "/") {
		return "", "" // changes the URL structure
	}
	switch {
	case isInt(key):
		n, ok := atoi(val)
		if !ok {
			return "4xx", key + " is not an integer"
		}
		switch key {
		case "tsbd":
			if n < 0 || n > 48*3600 {
				return "4xx", "tsbd out of [0,48h]"
			}
		case "mup":
			if n <= 0 {
				return "4xx", "mup must be > 0"
			}
		case "timesubsreg":
			if n < 0 || n > 1 {
				return "4xx", "timesubsreg must be 0 or 1"
			}
		case "scte35":
			if n < 1 || n > 3 {
				return "4xx", "scte35 must be 1, 2 or 3"
			}
		case "periods":
			if n < 1 || n > 3600 {
				return "4xx", "periods per hour must be in 1..3600"
			}
		case "timesubsdur":
			if n <= 0 {
				return "4xx", "cue duration must be positive"
			}
		}
	case key == "chunkdur":
		f, err := strconv.ParseFloat(val, 64)
		if err != nil || f < 0 {
			return "4xx", "chunkdur must be a non-negative number"
		}
	case key == "ato":
		if val == "inf" {
			return "", ""
		}
		if _, err := strconv.ParseFloat(val, 64); err != nil {
			return "4xx", "ato is not a number"
		}
	case key == "timeoffset":
		if _, err := strconv.ParseFloat(val, 64); err != nil {
			return "4xx", "timeoffset is not a number"
		}
	case key == "modulo":
		return "4xx", "modulo is not implemented"
	case key == "traffic":
		if val != "" && !regexp.MustCompile(`^([udsh][1-9][0-9]{0,8})+(,([udsh][1-9][0-9]{0,8})+)*$`).MatchString(val) {
			return "4xx", "traffic pattern is malformed"
		}
	}
	return "", ""
}

func genLivesim(t *rapid.T) Req {
	parts := benignParts(t)
	expect, why := "", ""
	nh := rapid.IntRange(1, 2).Draw(t, "nhostile")
	for i := 0; i < nh; i++ {
		var key, val string
		switch rapid.IntRange(0, 3).Draw(t, "keykind") {
		case 0, 1:
			key = rapid.SampledFrom(intKeys).Draw(t, "ikey")
			val = rapid.SampledFrom(hostileNums).Draw(t, "ival")
		case 2:
			key = rapid.SampledFrom(floatKeys).Draw(t, "fkey")
			val = rapid.SampledFrom(hostileNums).Draw(t, "fval")
		default:
			key = rapid.SampledFrom(listKeys).Draw(t, "lkey")
			val = rapid.SampledFrom(hostileLists[key]).Draw(t, "lval")
		}
		if e, w := classify(key, val); e != "" && expect == "" {
			expect, why = e, w
		}
		parts = append(parts, key+"_"+val)
	}
	// a key given twice: the later value wins, so no expectation can be tied to the hostile one
	seenKey := map[string]bool{}
	for _, p := range parts {
		k, _, _ := strings.Cut(p, "_")
		if seenKey[k] || (k == "ast" && seenKey["start"]) || (k == "start" && seenKey["ast"]) {
			expect = ""
		}
		seenKey[k] = true
	}
	// shuffle: the order of URL parts must not matter
	parts = rapid.Permutation(parts).Draw(t, "order")
	asset := rapid.SampledFrom(assets).Draw(t, "asset")
	file := rapid.SampledFrom(files).Draw(t, "file")
	file = strings.ReplaceAll(file, "$N$", rapid.SampledFrom(segNums).Draw(t, "segnum"))
	if rapid.IntRange(0, 2).Draw(t, "deep") == 0 {
		// a hostile value is only exercised by the segment code if the request is otherwise servable: known asset, available segment
		byTime := ""
		switch rapid.IntRange(0, 3).Draw(t, "deepasset") {
		case 0: // 6 s segments: 165 is the newest complete one at fixedNow
			asset = "testpic_6s"
			file = rapid.SampledFrom([]string{"V300/165.m4s", "A48/165.m4s", "V300/160.m4s", "A48/158.m4s", "V300/init.mp4", "Manifest.mpd"}).Draw(t, "deepfile")
			byTime = "V300/89100000.m4s"
		case 1: // one 8 s segment per loop: 124 ends exactly at fixedNow
			asset = "testpic_8s"
			file = rapid.SampledFrom([]string{"V300/124.m4s", "A48/124.m4s", "V300/120.m4s", "A48/119.m4s", "V300/init.mp4", "Manifest.mpd"}).Draw(t, "deepfile")
			byTime = "V300/89280000.m4s"
		default:
			asset = "testpic_2s"
			file = rapid.SampledFrom([]string{"V300/499.m4s", "A48/499.m4s", "V300/480.m4s", "A48/475.m4s", "V300/499.m4s", "V300/init.mp4", "Manifest.mpd"}).Draw(t, "deepfile")
			byTime = "V300/89820000.m4s" // segment 499 addressed by time
		}
		for _, p := range parts {
			if p == "segtimeline_1" && strings.HasPrefix(file, "V300/1") || p == "segtimeline_1" && strings.HasPrefix(file, "V300/4") {
				file = byTime
			}
		}
		if rapid.IntRange(0, 2).Draw(t, "young") == 0 {
			// a stream that started 15 s ago: the first segments of the stream are the servable ones
			var kept []string
			for _, p := range parts {
				if k, _, _ := strings.Cut(p, "_"); k != "start" && k != "startrel" && k != "ast" && k != "snr" {
					kept = append(kept, p)
				}
			}
			if len(kept) != len(parts) {
				expect = "" // the hostile value may have been among the replaced parts
			}
			parts = append(kept, "start_985")
			file = rapid.SampledFrom([]string{"V300/0.m4s", "V300/1.m4s", "A48/1.m4s", "V300/2.m4s", "A48/0.m4s", "Manifest.mpd"}).Draw(t, "youngfile")
		}
	}
	now := strconv.Itoa(fixedNow)
	q := "?nowMS=" + now
	switch rapid.IntRange(0, 14).Draw(t, "query") {
	case 0:
		q = "?nowMS=" + rapid.SampledFrom(hostileNums).Draw(t, "nowms")
		if _, ok := atoi(strings.TrimPrefix(q, "?nowMS=")); !ok && !strings.ContainsAny(q, "%+ ") && q != "?nowMS=" {
			if expect == "" {
				expect, why = "4xx", "nowMS is not an integer"
			}
		} else {
			expect = ""
		}
	case 1:
		q = "?nowDate=" + rapid.SampledFrom([]string{"2024-04-16T07:34:38Z", "yesterday", "", "2024-13-45T99:99:99Z", "1970-01-01T00:00:00Z"}).Draw(t, "nowdate")
		expect = ""
	case 2:
		q += "&publishTime=" + rapid.SampledFrom([]string{"2024-04-16T07:34:38Z", "x", "", "1970-01-01T00:00:10Z"}).Draw(t, "pt")
		expect = ""
	case 3, 4:
		// query parameters as Annex I would add them: all, some, repeated more or less often than configured
		q += rapid.SampledFrom([]string{"&a=1", "&a=1&b=2", "&a=1&b=3", "&a=1&a=2", "&a=1&b=3&a=3", "&a=1&a=2&a=3", "&b=2", "&a=", "&a=1&a=1"}).Draw(t, "annexq")
		expect = ""
	}
	url := "/livesim2/" + strings.Join(parts, "/")
	if len(parts) > 0 {
		url += "/"
	}
	// now and then an option-like part stands after the asset name (it is then part of the content path, not an option)
	if rapid.IntRange(0, 11).Draw(t, "option-after-asset") == 0 {
		stray := rapid.SampledFrom([]string{"stoprel_5", "startrel_-20", "stop_900", "periods_60", "patch_60", "ato_1", "chunkdur_0.5", "scte35_1", "timesubsstpp_en", "eccp_cenc", "traffic_u5d5", "statuscode_[{cycle:30,rsq:0,code:404}]"}).Draw(t, "stray")
		file = stray + "/" + file
		expect = ""
	}
	url += asset + "/" + file + q
	method := rapid.SampledFrom([]string{"GET", "GET", "GET", "GET", "HEAD", "POST", "OPTIONS", "PUT", "DELETE"}).Draw(t, "method")
	if method != "GET" && method != "HEAD" {
		expect = ""
	}
	r := Req{Method: method, URL: url, Expect: expect, Why: why}
	if method == "POST" {
		r.Body = rapid.SampledFrom(laBodies).Draw(t, "body")
	}
	return r
}

// genLLBoundary builds low-latency requests whose availabilityTimeOffset sits at, just below, just above or far above the
// segment duration of the asset (the chunk duration is segment duration minus offset): boundary values that only make sense
// in relation to the asset, which independent hostile values rarely hit.
func genLLBoundary(t *rapid.T) Req {
	type ad struct {
		asset string
		segMS int
		media []string
	}
	a := rapid.SampledFrom([]ad{{"testpic_2s", 2000, []string{"V300/499.m4s", "A48/499.m4s", "V300/300.m4s"}}, {"testpic_8s", 8000, []string{"V300/120.m4s", "A48/124.m4s"}},
		{"testpic_6s", 6000, []string{"V300/160.m4s", "A48/165.m4s"}}, {"bbb_hevc_ac3_8s", 8000, []string{"video/120.m4s", "audio/124.m4s"}}}).Draw(t, "asset")
	atoMS := a.segMS + rapid.SampledFrom([]int{0, 0, 0, -1, 1, -a.segMS / 2, a.segMS, -a.segMS + 1, -a.segMS}).Draw(t, "dato")
	parts := []string{"ato_" + strconv.FormatFloat(float64(atoMS)/1000, 'f', -1, 64),
		"chunkdur_" + rapid.SampledFrom([]string{"0.5", "1", "0.001", strconv.Itoa(a.segMS / 1000), "0.25"}).Draw(t, "chunkdur")}
	if rapid.Bool().Draw(t, "tl") {
		parts = append(parts, rapid.SampledFrom([]string{"segtimeline_1", "segtimelinenr_1", "eccp_cbcs", "start_100", "snr_3"}).Draw(t, "extra"))
	}
	parts = rapid.Permutation(parts).Draw(t, "order")
	file := rapid.SampledFrom(append(a.media, "Manifest.mpd")).Draw(t, "file")
	return Req{Method: "GET", URL: "/livesim2/" + strings.Join(parts, "/") + "/" + a.asset + "/" + file + "?nowMS=" + strconv.Itoa(fixedNow), Why: "low-latency boundary"}
}

// genUnknown builds requests whose only peculiarity is an unknown asset / representation / segment: 404 expected.
func genUnknown(t *rapid.T) Req {
	typ := rapid.SampledFrom([]string{"", "segtimeline_1/", "segtimelinenr_1/"}).Draw(t, "type")
	snr := rapid.SampledFrom([]string{"", "snr_5/"}).Draw(t, "snr")
	pre := "/livesim2/" + typ + snr
	q := "?nowMS=" + strconv.Itoa(fixedNow)
	switch rapid.SampledFrom([]string{"asset", "asset-seg", "rep", "below-snr", "time-not-a-start", "time-not-a-start-audio", "subs-lang", "ext"}).Draw(t, "unknown") {
	case "asset":
		return Req{Method: "GET", URL: pre + rapid.SampledFrom([]string{"nosuch", "testpic", "testpic_2s_x", "WAVE", "WAVE/vectors"}).Draw(t, "a") + "/Manifest.mpd" + q, Expect: "404", Why: "unknown asset"}
	case "asset-seg":
		return Req{Method: "GET", URL: pre + "nosuch/V300/499.m4s" + q, Expect: "404", Why: "unknown asset"}
	case "rep":
		return Req{Method: "GET", URL: pre + "testpic_2s/" + rapid.SampledFrom([]string{"V301", "NoRep", "v300", "A48x"}).Draw(t, "r") + "/499.m4s" + q, Expect: "404", Why: "segment name matching no representation"}
	case "below-snr":
		if typ == "segtimeline_1/" {
			typ = ""
		}
		return Req{Method: "GET", URL: "/livesim2/" + typ + "snr_5/testpic_2s/" + rapid.SampledFrom([]string{"V300", "A48", "timestpp-en", "imsc1_txt_sv"}).Draw(t, "r") + "/" + rapid.SampledFrom([]string{"0", "4"}).Draw(t, "n") + ".m4s" + q, Expect: "404", Why: "segment number below startNumber"}
	case "time-not-a-start":
		return Req{Method: "GET", URL: "/livesim2/segtimeline_1/" + snr + "testpic_2s/V300/" + rapid.SampledFrom([]string{"89820001", "89819999", "1", "89910000", "7740001"}).Draw(t, "tm") + ".m4s" + q, Expect: "404", Why: "$Time$ value that is not the start of a segment"}
	case "time-not-a-start-audio":
		return Req{Method: "GET", URL: "/livesim2/segtimeline_1/" + snr + "testpic_2s/A48/" + rapid.SampledFrom([]string{"47904769", "47904000", "1", "47905000"}).Draw(t, "tm") + ".m4s" + q, Expect: "404", Why: "$Time$ value that is not the start of an audio segment"}
	case "subs-lang":
		return Req{Method: "GET", URL: pre + "timesubsstpp_en,sv/testpic_2s/timestpp-" + rapid.SampledFrom([]string{"xx", "e", "en-GB"}).Draw(t, "l") + "/" + rapid.SampledFrom([]string{"init.mp4", "499.m4s"}).Draw(t, "f") + q, Expect: "404", Why: "subtitle language that is not configured"}
	default:
		return Req{Method: "GET", URL: pre + "testpic_2s/V300/499." + rapid.SampledFrom([]string{"xyz", "mpdx", "txt"}).Draw(t, "e") + q, Expect: "404", Why: "unknown file extension"}
	}
}

var laBodies = []string{"", "{}", `{"kids":[]}`, `{"kids":["nrQFDeRLSAKTLifXUIPiZg"],"type":"temporary"}`, `{"kids":["AAAA"]}`, `{"kids":[""]}`, `{"kids":["####"]}`, `{"kids":"x"}`, `{"kids":[1,2]}`,
	`{"kids":["KID_start_must_be_288"]}`, `[`, `null`, `{"kids":["KID_start_must_be_288AAAAAA"]}`, `{"kids":["` + strings.Repeat("A", 22) + `"]}`, `{"kids":["KID_________________w"]}`, strings.Repeat("{", 5000)}

func genOther(t *rapid.T) Req {
	q := func(keys []string) string {
		var ps []string
		for _, k := range keys {
			if rapid.IntRange(0, 2).Draw(t, "qk") == 0 {
				ps = append(ps, k+"="+rapid.SampledFrom(append(hostileNums, "testpic_2s", "Manifest.mpd", "nosuch", "eccp-cenc", "EZDRM-1-key-cbcs-test", "u5d5", "[{cycle:30,rsq:0,code:404}]", "a=1,b=2", "abc", "segtimeline", "Number")).Draw(t, "qv"))
			}
		}
		sort.Strings(ps)
		return strings.ReplaceAll(strings.Join(ps, "&"), " ", "%20")
	}
	urlgenKeys := []string{"asset", "mpd", "stl", "tsbd", "ato", "mup", "spd", "snr", "utc", "periods", "continuous", "chunkdur", "ltgt", "patch-ttl", "start", "stop", "startrel", "stoprel", "timesubsstpp", "timesubswvtt", "timesubsdur", "timesubsreg", "drm", "scte35", "annexI", "statuscode", "traffic"}
	switch rapid.SampledFrom([]string{"urlgen-create", "urlgen-create", "urlgen-mpds", "urlgen-drms", "urlgen", "laurl", "laurl", "patch", "patch", "api-create", "api-create", "api-id", "misc", "vod"}).Draw(t, "endpoint") {
	case "urlgen-create":
		return Req{Method: "GET", URL: "/urlgen/create?" + q(urlgenKeys), NoDRM: rapid.Bool().Draw(t, "nodrm")}
	case "urlgen-mpds":
		return Req{Method: "GET", URL: "/urlgen/mpds?asset=" + rapid.SampledFrom([]string{"testpic_2s", "nosuch", "", "WAVE"}).Draw(t, "a"), NoDRM: rapid.Bool().Draw(t, "nodrm")}
	case "urlgen-drms":
		return Req{Method: "GET", URL: "/urlgen/drms?asset=" + rapid.SampledFrom([]string{"testpic_2s", "nosuch", "", "bbb_hevc_ac3_8s"}).Draw(t, "a"), NoDRM: rapid.Bool().Draw(t, "nodrm")}
	case "urlgen":
		return Req{Method: "GET", URL: rapid.SampledFrom([]string{"/urlgen/", "/urlgen", "/urlgen/x", "/urlgen/create", "/urlgen/mpds", "/urlgen/drms"}).Draw(t, "u"), NoDRM: rapid.Bool().Draw(t, "nodrm")}
	case "laurl":
		return Req{Method: "POST", URL: rapid.SampledFrom([]string{"/livesim2/eccp_cenc/testpic_2s/eccp.json", "/eccp.json", "/livesim2/x", "/anything", "/livesim2/eccp_cbcs/testpic_2s/Manifest.mpd/eccp.json"}).Draw(t, "u"), Body: rapid.SampledFrom(laBodies).Draw(t, "body"), Header: map[string]string{"Content-Type": "application/json"}}
	case "patch":
		pt := rapid.SampledFrom([]string{"2024-04-16T07:34:38Z", "", "x", "1970-01-01T00:16:38Z", "1970-01-01T00%3A16%3A00Z", "9999-99-99T00:00:00Z", "1970-01-01T00:16:38.5Z"}).Draw(t, "pt")
		base := rapid.SampledFrom([]string{"/patch/livesim2/patch_60/segtimeline_1/testpic_2s/Manifest.mpp", "/patch/livesim2/segtimeline_1/testpic_2s/Manifest.mpp", "/patch/livesim2/patch_60/testpic_2s/Manifest.mpp", "/patch/livesim2/patch_60/segtimeline_1/nosuch/Manifest.mpp", "/patch/", "/patch/x", "/patch/livesim2/patch_60/segtimelinenr_1/testpic_2s/Manifest.mpd", "/patch/livesim2/patch_abc/segtimeline_1/testpic_2s/Manifest.mpp", "/patch/livesim2/patch_60/segtimeline_1/periods_60/testpic_2s/Manifest_thumbs.mpp",
			// the patch route in front of things that are not MPDs: media and init segments (whole and chunked), subtitles, thumbnails
			"/patch/livesim2/testpic_2s/V300/499.m4s", "/patch/livesim2/chunkdur_0.5/ato_1/testpic_2s/V300/499.m4s", "/patch/livesim2/ato_1.5/chunkdur_0.5/testpic_2s/A48/499.m4s",
			"/patch/livesim2/patch_60/testpic_2s/V300/init.mp4", "/patch/livesim2/timesubsstpp_en/testpic_2s/timestpp-en/499.m4s", "/patch/livesim2/testpic_2s/thumbs/499.jpg",
			"/patch/livesim2/chunkdur_0.5/ato_1/eccp_cenc/testpic_2s/V300/499.m4s"}).Draw(t, "pb")
		u := base + "?publishTime=" + pt
		if rapid.Bool().Draw(t, "withnow") {
			u += "&nowMS=" + rapid.SampledFrom([]string{"1000000", "abc", "0", "998000", "1000001"}).Draw(t, "pn")
		}
		if rapid.IntRange(0, 5).Draw(t, "nopt") == 0 {
			u = base
		}
		return Req{Method: "GET", URL: u}
	case "api-create":
		body := rapid.SampledFrom([]string{"", "{}", "[", `{"destRoot":"http://127.0.0.1:1","destName":"x","livesimURL":"/livesim2/testpic_2s/Manifest.mpd","testNowMS":100000}`,
			`{"destRoot":"http://127.0.0.1:1","destName":"x","livesimURL":"/livesim2/nosuch/Manifest.mpd","testNowMS":100000}`,
			`{"destRoot":"http://127.0.0.1:1","destName":"x","livesimURL":"","testNowMS":100000}`,
			`{"destRoot":"http://127.0.0.1:1","destName":"x","livesimURL":"/livesim2/periods_0/testpic_2s/Manifest.mpd","testNowMS":100000}`,
			`{"destRoot":"http://127.0.0.1:1","destName":"x","livesimURL":"/livesim2/tsbd_abc/testpic_2s/Manifest.mpd","testNowMS":100000}`,
			`{"destRoot":"http://127.0.0.1:1","destName":"x","livesimURL":"/livesim2/testpic_2s/Nope.mpd","testNowMS":100000}`,
			`{"destRoot":"http://127.0.0.1:1","destName":"x","livesimURL":"/livesim2/testpic_2s/Manifest_thumbs.mpd","testNowMS":100000,"duration":0}`,
			`{"destRoot":"http://127.0.0.1:1","destName":"x","livesimURL":"::::","testNowMS":-5,"duration":-1}`,
			`{"destRoot":5}`, `{"livesimURL":"/livesim2/testpic_2s/Manifest.mpd","testNowMS":"x"}`}).Draw(t, "apibody")
		return Req{Method: "POST", URL: "/api/cmaf-ingests", Body: body, Header: map[string]string{"Content-Type": "application/json"}}
	case "api-id":
		id := rapid.SampledFrom([]string{"0", "1", "99999", "-1", "abc", "18446744073709551616", "1.5", "", "%00", strings.Repeat("9", 40)}).Draw(t, "id")
		return Req{Method: rapid.SampledFrom([]string{"GET", "DELETE", "GET"}).Draw(t, "m"), URL: "/api/cmaf-ingests/" + id + rapid.SampledFrom([]string{"", "/step", "/x"}).Draw(t, "suffix")}
	case "vod":
		return Req{Method: rapid.SampledFrom([]string{"GET", "HEAD", "OPTIONS"}).Draw(t, "m"), URL: "/vod/" + rapid.SampledFrom([]string{"", "testpic_2s/Manifest.mpd", "testpic_2s/V300/1.m4s", "nosuch", "../../go.mod", "testpic_2s/", "%2e%2e/x"}).Draw(t, "vp")}
	default:
		return Req{Method: rapid.SampledFrom([]string{"GET", "HEAD", "POST", "OPTIONS", "PUT", "DELETE", "PATCH"}).Draw(t, "m"),
			URL: rapid.SampledFrom([]string{"/", "/healthz", "/favicon.ico", "/config", "/version", "/assets", "/vod", "/static/", "/static/time.txt", "/static/nosuch", "/static/../x", "/reqcount", "/livesim/testpic_2s/Manifest.mpd", "/livesim-chunked/x", "/dash/vod/x", "/nosuch", "//", "/livesim2", "/livesim2/", "/api", "/api/docs", "/api/openapi.json"}).Draw(t, "mu")}
	}
}

// ---- oracle -------------------------------------------------------------------------------------------

var deliberate = map[int]bool{200: true, 201: true, 204: true, 301: true, 302: true, 400: true, 401: true, 404: true, 405: true, 410: true, 415: true, 422: true, 425: true, 429: true, 500: true, 503: true}

var panicSite = regexp.MustCompile(`(?m)^(github\.com/Dash-Industry-Forum/livesim2/[^\s(]+)`)

func check(r Req) (*hx.Violation, result) {
	a, b, err := routers()
	if err != nil {
		return hx.V("harness", "%v", err), result{}
	}
	rt := a
	if r.NoDRM {
		rt = b
	}
	res := rt.do(r, 10*time.Second)
	if res.timedOut {
		// confirm: once more, alone
		res2 := rt.do(r, 15*time.Second)
		if res2.timedOut {
			return hx.V("hang", "%s %s: handler did not return within 15 s", r.Method, r.URL), res
		}
		res = res2
	}
	if res.panicVal != nil {
		site := "?"
		// first livesim2 frame below the panic
		for _, m := range panicSite.FindAllStringSubmatch(res.stack, -1) {
			site = m[1]
			break
		}
		return hx.V("panic", "%s %s: panic %v in %s", r.Method, r.URL, res.panicVal, site), res
	}
	if res.code == -1 {
		return nil, res
	}
	if !deliberate[res.code] {
		return hx.V("status", "%s %s -> %d %.100q", r.Method, r.URL, res.code, res.body), res
	}
	switch r.Expect {
	case "4xx":
		if res.code < 400 || res.code > 499 || len(bytes.TrimSpace(res.body)) == 0 {
			return hx.V("malformed-not-4xx", "%s %s (%s) -> %d %.120q, expected a 4xx with a message", r.Method, r.URL, r.Why, res.code, res.body), res
		}
	case "404":
		if res.code != 404 {
			return hx.V("unknown-not-404", "%s %s (%s) -> %d %.120q, expected 404", r.Method, r.URL, r.Why, res.code, res.body), res
		}
	}
	return nil, res
}

func TestC08Server(t *testing.T) {
	run := hx.Start(t, "C08")
	defer run.Finish()
	if run.Replaying() {
		if run.ReplayTest() != t.Name() {
			return
		}
		var r Req
		run.ReplayCase(&r)
		if v, _ := check(r); v != nil {
			run.Fail(t, r, v)
		}
		return
	}
	_, _, err := routers()
	if err != nil {
		t.Fatalf("HARNESS: %v", err)
	}
	run.Note("routes_mounted", nRoutes)
	run.Essential("livesim2", "unknown", "other", "expect:4xx", "expect:404", "reached-past-url-parsing")
	n := 0
	run.Rapid(t, 1, 40000, 250000, func(rt *rapid.T) {
		var r Req
		kind := rapid.SampledFrom([]string{"livesim2", "livesim2", "livesim2", "unknown", "other", "other", "ll-boundary"}).Draw(rt, "kind")
		switch kind {
		case "ll-boundary":
			r = genLLBoundary(rt)
		case "livesim2":
			r = genLivesim(rt)
		case "unknown":
			r = genUnknown(rt)
		default:
			r = genOther(rt)
		}
		v, res := check(r)
		cls := []string{kind, fmt.Sprintf("status:%d", res.code)}
		if r.Expect != "" {
			cls = append(cls, "expect:"+r.Expect)
		}
		if res.code != 400 && res.code > 0 {
			cls = append(cls, "reached-past-url-parsing")
			run.NonTrivial(r.Method + " " + r.URL + r.Body)
		}
		run.Eval(cls...)
		n++
		if n%64 == 1 {
			run.Sample(map[string]any{"method": r.Method, "url": r.URL, "body": head(r.Body, 80), "expect": r.Expect, "status": res.code})
		}
		if v != nil {
			if v.Kind == "harness" {
				rt.Fatalf("HARNESS: %s", v.Msg)
			}
			run.Fail(rt, r, v)
		}
	})
}

func head(s string, n int) string {
	if len(s) > n {
		return s[:n]
	}
	return s
}
