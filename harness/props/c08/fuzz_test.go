package c08

import (
	"testing"

	"pgregory.net/rapid"
)

// FuzzC08Server drives the request generators of TestC08Server from Go's coverage-guided fuzzer (rapid.MakeFuzz), thorough
// tier only: coverage of livesim2's URL parsing and handlers steers the choice of hostile values. Same oracle (check).
func FuzzC08Server(f *testing.F) {
	if _, _, err := routers(); err != nil {
		f.Fatalf("HARNESS: %v", err)
	}
	f.Add([]byte{})
	f.Add([]byte{9, 8, 7, 6, 5, 4, 3, 2, 1, 0, 1, 2, 3, 4, 5, 6, 7, 8, 9, 10, 11, 12})
	f.Fuzz(rapid.MakeFuzz(func(rt *rapid.T) {
		var r Req
		switch rapid.SampledFrom([]string{"livesim2", "livesim2", "livesim2", "unknown", "other", "other", "ll-boundary"}).Draw(rt, "kind") {
		case "ll-boundary":
			r = genLLBoundary(rt)
		case "livesim2":
			r = genLivesim(rt)
		case "unknown":
			r = genUnknown(rt)
		default:
			r = genOther(rt)
		}
		v, _ := check(r)
		if v != nil && v.Kind != "harness" {
			rt.Fatalf("VERIF-FAIL %s: %s (%s %s %q)", v.Kind, v.Msg, r.Method, r.URL, r.Body)
		}
	}))
}
