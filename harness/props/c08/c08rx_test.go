// C08, receiver part — arbitrary upload requests (any method, path, body) to the CMAF-ingest receiver:
// the handler returns a deliberate response, the receiver process survives, and a well-formed stream
// uploaded afterwards is still accepted.
package c08

import (
	"encoding/base64"
	"encoding/binary"
	"fmt"
	"os"
	"runtime/debug"
	"strings"
	"testing"
	"time"

	"pgregory.net/rapid"
	"verifharness/internal/hx"
	"verifharness/internal/rx"
)

type Up struct {
	Method string `json:"method"`
	Path   string `json:"path"`
	Body   string `json:"body_b64"`
	CL     bool   `json:"content_length"`
	What   string `json:"what"`
}

type RxCase struct {
	TsbdS   uint64 `json:"tsbd_s"`
	Clamped int    `json:"declared_counts_clamped,omitempty"`
	Ups   []Up   `json:"uploads"`
}

type box struct {
	off, size int
	typ       string
	hdr       int
}

var containers = map[string]bool{"moov": true, "trak": true, "mdia": true, "minf": true, "stbl": true, "mvex": true, "moof": true, "traf": true, "edts": true, "dinf": true}

// walk lists the boxes of b (top level and inside the usual containers) the way the mp4 decoder meets them: a size
// field of 1 announces a 64-bit size after the type. A box that cannot be stepped over ends the walk of its level,
// but is still listed (the decoder decodes its body before it notices).
func walk(b []byte, base int, out *[]box) {
	p := 0
	for p+8 <= len(b) {
		sz := int(binary.BigEndian.Uint32(b[p:]))
		typ := string(b[p+4 : p+8])
		hdr := 8
		if sz == 1 {
			if p+16 > len(b) {
				return
			}
			hdr = 16
			l := binary.BigEndian.Uint64(b[p+8:])
			if l < 16 || l > uint64(len(b)-p) {
				*out = append(*out, box{off: base + p, size: len(b) - p, typ: typ, hdr: hdr})
				return
			}
			sz = int(l)
		}
		if sz < 8 || p+sz > len(b) {
			if sz >= 8 && typ == "mdat" { // the decoder lets an mdat run past the end
				*out = append(*out, box{off: base + p, size: len(b) - p, typ: typ, hdr: hdr})
			}
			return
		}
		*out = append(*out, box{off: base + p, size: sz, typ: typ, hdr: hdr})
		if containers[typ] {
			walk(b[p+hdr:p+sz], base+p+hdr, out)
		}
		p += sz
	}
}

var hostileSizes = []uint32{0, 1, 2, 7, 8, 9, 12, 15, 16, 0x00ffffff, 0x00fffff0, 0xffffffff, 0xfffffff0, 0xffffff00}
var boxTypes = []string{"free", "moof", "mdat", "styp", "ftyp", "moov", "emsg", "sidx", "prft", "trun", "tfdt", "tfhd", "mfhd", "traf", "xxxx", "\x00\x00\x00\x00"}

func mutate(t *rapid.T, b []byte) ([]byte, string) {
	b = append([]byte{}, b...)
	var bs []box
	walk(b, 0, &bs)
	var notes []string
	for k := rapid.IntRange(1, 3).Draw(t, "nmut"); k > 0; k-- {
		op := rapid.SampledFrom([]string{"size", "size", "size-wrap", "size-rel", "type", "truncate", "truncate-box", "u32", "u32", "append", "dup", "swap", "flip", "zero-tail"}).Draw(t, "mut")
		if len(bs) == 0 && op != "append" && op != "truncate" {
			op = "flip"
		}
		if len(b) == 0 {
			op = "append"
		}
		switch op {
		case "size":
			x := rapid.SampledFrom(bs).Draw(t, "box")
			v := rapid.SampledFrom(hostileSizes).Draw(t, "size")
			binary.BigEndian.PutUint32(b[x.off:], v)
			notes = append(notes, fmt.Sprintf("%s.size=%d", x.typ, v))
		case "size-wrap":
			// a top-level box that does not start a chunk declares a size reaching (just) beyond the 32-bit offset range, so
			// that offset + size wraps around to the start of an earlier box of the same chunk (the parser counts offsets from
			// the end of the last complete mdat)
			type tb struct {
				box
				rel int
			}
			var top []tb
			pp, rel := 0, 0
			for _, x := range bs {
				if x.off == pp {
					top = append(top, tb{x, rel})
					pp += x.size
					rel += x.size
					if x.typ == "mdat" {
						rel = 0
					}
				}
			}
			var cand []tb
			for _, x := range top {
				if x.rel > 0 {
					cand = append(cand, x)
				}
			}
			if len(cand) == 0 {
				continue
			}
			x := rapid.SampledFrom(cand).Draw(t, "wrapbox")
			back := rapid.SampledFrom([]int{0, 0, 8, x.rel}).Draw(t, "wrapto")
			v := uint32((uint64(1)<<32 - uint64(x.rel) + uint64(back)) & 0xffffffff)
			binary.BigEndian.PutUint32(b[x.off:], v)
			notes = append(notes, fmt.Sprintf("%s.size=%#x (chunk-relative offset %d wraps to %d)", x.typ, v, x.rel, back))
		case "size-rel":
			x := rapid.SampledFrom(bs).Draw(t, "box")
			d := rapid.SampledFrom([]int{-9, -8, -4, -1, 1, 4, 8, 9, 1 << 10}).Draw(t, "dsize")
			v := x.size + d
			if v < 0 {
				v = 0
			}
			binary.BigEndian.PutUint32(b[x.off:], uint32(v))
			notes = append(notes, fmt.Sprintf("%s.size%+d", x.typ, d))
		case "type":
			x := rapid.SampledFrom(bs).Draw(t, "box")
			ty := rapid.SampledFrom(boxTypes).Draw(t, "type")
			copy(b[x.off+4:], ty)
			notes = append(notes, fmt.Sprintf("%s->%q", x.typ, ty))
		case "truncate":
			at := rapid.IntRange(0, len(b)).Draw(t, "at")
			b = b[:at]
			notes = append(notes, fmt.Sprintf("truncate@%d", at))
		case "truncate-box":
			x := rapid.SampledFrom(bs).Draw(t, "box")
			at := x.off + rapid.SampledFrom([]int{0, 1, 4, 7, 8, 9, 12}).Draw(t, "in")
			if at <= len(b) {
				b = b[:at]
			}
			notes = append(notes, fmt.Sprintf("truncate in %s", x.typ))
		case "u32":
			// a 32-bit field inside a box payload (counts, versions/flags, ids, offsets) gets a hostile value
			x := rapid.SampledFrom(bs).Draw(t, "box")
			words := (x.size - 8) / 4
			if words <= 0 {
				continue
			}
			w := rapid.IntRange(0, min(words-1, 12)).Draw(t, "word")
			v := rapid.SampledFrom([]uint32{0, 1, 2, 255, 0xffff, 0x00010000, 1000000} /* counts above ~10^6 make mp4ff allocate gigabytes (DESIGN O9): not exercised */).Draw(t, "val")
			if x.off+8+4*w+4 <= len(b) {
				binary.BigEndian.PutUint32(b[x.off+8+4*w:], v)
			}
			notes = append(notes, fmt.Sprintf("%s.word%d=%#x", x.typ, w, v))
		case "append":
			extra := rapid.SliceOfN(rapid.Byte(), 1, 24).Draw(t, "tail")
			b = append(b, extra...)
			notes = append(notes, fmt.Sprintf("append %d bytes", len(extra)))
		case "dup":
			x := rapid.SampledFrom(bs).Draw(t, "box")
			if x.off+x.size <= len(b) {
				b = append(b[:x.off+x.size], append(append([]byte{}, b[x.off:x.off+x.size]...), b[x.off+x.size:]...)...)
			}
			notes = append(notes, "dup "+x.typ)
		case "swap":
			var top []box
			p := 0
			for _, x := range bs {
				if x.off == p {
					top = append(top, x)
					p += x.size
				}
			}
			if len(top) >= 2 && p <= len(b) {
				i := rapid.IntRange(0, len(top)-2).Draw(t, "swap")
				a1, a2 := top[i], top[i+1]
				nb := append([]byte{}, b[:a1.off]...)
				nb = append(nb, b[a2.off:a2.off+a2.size]...)
				nb = append(nb, b[a1.off:a1.off+a1.size]...)
				nb = append(nb, b[a2.off+a2.size:]...)
				b = nb
				notes = append(notes, fmt.Sprintf("swap %s/%s", a1.typ, a2.typ))
			}
		case "flip":
			if len(b) > 0 {
				at := rapid.IntRange(0, len(b)-1).Draw(t, "at")
				b[at] ^= byte(1 << rapid.IntRange(0, 7).Draw(t, "bit"))
				notes = append(notes, fmt.Sprintf("flip@%d", at))
			}
		case "zero-tail":
			at := rapid.IntRange(0, len(b)).Draw(t, "at")
			for i := at; i < len(b); i++ {
				b[i] = 0
			}
			notes = append(notes, fmt.Sprintf("zero from %d", at))
		}
		bs = bs[:0]
		walk(b, 0, &bs)
	}
	return b, strings.Join(notes, "; ")
}

// sanitize keeps the memory the parser will allocate bounded: the chunk parser allocates what a box header declares
// (DESIGN O6). Sizes below 16 MiB are kept; sizes that run past the 32-bit offset range are kept (they must be
// rejected without allocation, and used to make the parser spin); anything between is cut to 24 bits.
func sanitize(b []byte) (int, []byte) {
	cut := 0
	p, rel := uint64(0), uint64(0) // rel: offset from the end of the last complete mdat - what the parser adds box sizes to
	for steps := 0; p+8 <= uint64(len(b)) && steps < 1000; steps++ {
		sz := uint64(binary.BigEndian.Uint32(b[p:]))
		if sz < 8 {
			break
		}
		if sz >= 1<<24 && rel+sz <= 0xffffffff {
			b[p] = 0
			sz &= 0xffffff
			cut++
			if sz < 8 {
				break
			}
		}
		if rel+sz > 0xffffffff {
			break
		}
		isMdat := string(b[p+4:p+8]) == "mdat"
		p += sz
		rel += sz
		if isMdat && p <= uint64(len(b)) {
			rel = 0
		}
	}
	return cut, b
}

// countAt gives, for box types that carry a table, the offset of the 32-bit entry count inside the payload.
var countAt = map[string]int{"trun": 4, "stts": 4, "ctts": 4, "stsc": 4, "stco": 4, "co64": 4, "stss": 4, "stsz": 8, "elst": 4, "senc": 4, "saio": 4,
	"subs": 4, "sbgp": 8, "ssix": 4, "tfra": 12, "stz2": 8, "sdtp": 0, "cslg": 0}

// clampCounts is the exclusion-by-construction of KF-C08-rx-declared-counts: mp4ff allocates and iterates what a table box
// declares (a 600-byte upload with trun.sample_count = 2^32-1 costs the receiver 64 GB). Declared counts above 10^6 are
// cut to 10^6; the number of cut fields is counted.
func clampCounts(b []byte) int {
	// The decoder does not follow declared sizes the way a structural walk would (known box types advance by their decoded
	// size), so every occurrence of a table box type in the body is treated as a box header, wherever it stands.
	cut := 0
	for q := 4; q+4 <= len(b); q++ {
		off, ok := countAt[string(b[q:q+4])]
		if !ok {
			continue
		}
		hdr := 8
		if binary.BigEndian.Uint32(b[q-4:]) == 1 {
			hdr = 16 // 64-bit size follows the type
		}
		p := q - 4 + hdr + off
		if p+4 > len(b) {
			continue
		}
		if binary.BigEndian.Uint32(b[p:]) > 1000000 {
			binary.BigEndian.PutUint32(b[p:], 1000000)
			cut++
		}
	}
	return cut
}

var hostilePaths = []string{"", "/", "//", "/ch", "/ch/", "/ch/tr", "/ch/tr/", "/ch/tr/x.cmfv", "/ch/tr/1.xyz", "/ch/tr/1", "/ch/tr/-1.cmfv", "/ch/tr/99999999999999999999.cmfv",
	"/ch/Streams(", "/ch/Streams()", "/ch/Streams(.cmfv)", "/ch/Streams(a.b.c.cmfv)", "/ch/Streams(tr.cmfx)", "/Streams(tr.cmfv)", "/ch/a/../tr/1.cmfv", "/ch/./tr/1.cmfv",
	"/ch/tr/init.cmfv", "/ch/tr/init.cmfm", "/ch/x.mpd", "/x.mpd", "/ch/sub/dir/tr/3.cmfa", "/ch/%2e%2e/tr/1.cmfv", "/ch/tré/1.cmft", "/ch/" + strings.Repeat("n", 300) + "/1.cmfv",
	"/ch/tr/1.cmfv/", "/ch/tr/1.cmfv?x=1", "/ch/Streams(tr.cmfv)/extra"}

func genRx(t *rapid.T) RxCase {
	c := RxCase{TsbdS: rapid.SampledFrom([]uint64{4, 8, 30, 300}).Draw(t, "tsbd")}
	kinds := []string{"video", "audio", "text"}
	seq := map[string]uint32{}
	n := rapid.IntRange(3, 14).Draw(t, "nups")
	for i := 0; i < n; i++ {
		kind := rapid.SampledFrom(kinds).Draw(t, "kind")
		tk := rx.Kinds[kind]
		ch := rapid.SampledFrom([]string{"ch", "ch", "ch2"}).Draw(t, "ch")
		track := kind
		u := Up{Method: "PUT", CL: rapid.Bool().Draw(t, "cl")}
		var body []byte
		isInit := rapid.IntRange(0, 3).Draw(t, "init?") == 0
		if isInit {
			body, _ = rx.Init(kind)
			u.Path = fmt.Sprintf("/%s/%s/init%s", ch, track, tk.Ext)
			u.What = "init " + kind
		} else {
			k := ch + "/" + track
			s := seq[k]
			seq[k]++
			dur := uint32(2) * tk.Timescale
			var err error
			body, err = rx.MediaSeg(kind, s, uint64(s)*uint64(dur), dur, byte(i), rapid.Bool().Draw(t, "styp"))
			if err != nil {
				t.Fatalf("HARNESS: %v", err)
			}
			u.Path = fmt.Sprintf("/%s/%s/%d%s", ch, track, s, tk.Ext)
			u.What = fmt.Sprintf("media %s #%d", kind, s)
		}
		if rapid.Bool().Draw(t, "streams") {
			u.Path = fmt.Sprintf("/%s/Streams(%s%s)", ch, track, tk.Ext)
		}
		switch rapid.SampledFrom([]string{"valid", "mutated", "mutated", "mutated", "path", "method", "empty", "random", "mpd"}).Draw(t, "variant") {
		case "mutated":
			var note string
			body, note = mutate(t, body)
			u.What += " [" + note + "]"
		case "path":
			u.Path = rapid.SampledFrom(hostilePaths).Draw(t, "path")
			u.What += " to hostile path"
		case "method":
			u.Method = rapid.SampledFrom([]string{"POST", "GET", "DELETE", "HEAD", "PATCH", "OPTIONS"}).Draw(t, "method")
			u.What += " with " + u.Method
		case "empty":
			body = nil
			u.What += " [empty body]"
		case "random":
			body = rapid.SliceOfN(rapid.Byte(), 1, 64).Draw(t, "bytes")
			u.What += " [random bytes]"
		case "mpd":
			u.Path = "/" + ch + "/manifest.mpd"
			body = []byte(rapid.SampledFrom([]string{"", "<MPD/>", "<MPD", "\x00\x01", "<MPD xmlns=\"urn:mpeg:dash:schema:mpd:2011\"><Period/></MPD>"}).Draw(t, "mpd"))
			u.What = "mpd upload"
		}
		_, body = sanitize(body)
		c.Clamped += clampCounts(body)
		u.Body = base64.StdEncoding.EncodeToString(body)
		c.Ups = append(c.Ups, u)
	}
	return c
}

var deliberateRx = map[int]bool{200: true, 201: true, 204: true, 400: true, 401: true, 404: true, 405: true, 409: true, 411: true, 413: true, 415: true, 500: true}

type rxInfo struct {
	accepted, refused, hostile int
}

func checkRx(run *hx.Run, c RxCase) (*hx.Violation, rxInfo) {
	var inf rxInfo
	dir, err := os.MkdirTemp("", "c08rx")
	if err != nil {
		return hx.V("harness", "%v", err), inf
	}
	defer os.RemoveAll(dir)
	r, err := rx.New(dir, c.TsbdS, nil)
	if err != nil {
		return hx.V("harness", "%v", err), inf
	}
	defer r.Cancel()
	upload := func(u Up) (code int, v *hx.Violation) {
		body, _ := base64.StdEncoding.DecodeString(u.Body)
		type res struct {
			code int
			pan  string
		}
		done := make(chan res, 1)
		go func() {
			defer func() {
				if p := recover(); p != nil {
					done <- res{pan: fmt.Sprint(p) + " at " + firstRepoFrame(string(debug.Stack()))}
				}
			}()
			done <- res{code: r.Upload(u.Method, u.Path, body, nil, u.CL)}
		}()
		select {
		case x := <-done:
			if x.pan != "" {
				return 0, hx.V("rx-panic", "%s %s (%s): handler panicked: %s", u.Method, u.Path, u.What, x.pan)
			}
			return x.code, nil
		case <-time.After(10 * time.Second):
			v := hx.V("rx-hang", "%s %s (%s): handler did not return within 10 s", u.Method, u.Path, u.What)
			if clampCounts(append([]byte{}, body...)) > 0 {
				// defect model of KF-C08-rx-declared-counts: a table box declares more than 10^6 entries and the mp4 library
				// iterates / allocates that many
				v.Kind = "KF-C08-rx-declared-counts"
			}
			return 0, v
		}
	}
	chans := map[string]bool{}
	for i, u := range c.Ups {
		code, v := upload(u)
		if v != nil {
			return v, inf
		}
		if !deliberateRx[code] {
			return hx.V("rx-status", "upload %d %s %s (%s) -> status %d", i, u.Method, u.Path, u.What, code), inf
		}
		if code == 200 {
			inf.accepted++
		} else {
			inf.refused++
		}
		if strings.Contains(u.What, "[") || strings.Contains(u.What, "hostile") {
			inf.hostile++
		}
		parts := strings.Split(strings.TrimPrefix(u.Path, "/"), "/")
		if len(parts) > 1 {
			chans[parts[0]] = true
		}
		// let the channel goroutine digest what was handed over: a runtime error there kills the process (journalled case = replay)
		for ch := range chans {
			qd := make(chan struct{})
			go func() { r.R.VerifQuiesce(ch); close(qd) }()
			select {
			case <-qd:
			case <-time.After(10 * time.Second):
				return hx.V("rx-hang", "after upload %d (%s %s, %s) the channel goroutine of %q does not drain its queue within 10 s", i, u.Method, u.Path, u.What, ch), inf
			}
		}
	}
	// a well-formed stream on a fresh channel is still served
	for _, kind := range []string{"video", "audio"} {
		tk := rx.Kinds[kind]
		ib, _ := rx.Init(kind)
		if code, v := upload(Up{Method: "PUT", Path: fmt.Sprintf("/after/%s/init%s", kind, tk.Ext), Body: base64.StdEncoding.EncodeToString(ib), CL: true, What: "well-formed init afterwards"}); v != nil || code != 200 {
			if v != nil {
				return v, inf
			}
			return hx.V("rx-after", "after the hostile uploads a well-formed init on a fresh channel is answered %d", code), inf
		}
		for s := uint32(0); s < 3; s++ {
			mb, _ := rx.MediaSeg(kind, s, uint64(s)*uint64(2*tk.Timescale), 2*tk.Timescale, 7, true)
			if code, v := upload(Up{Method: "PUT", Path: fmt.Sprintf("/after/%s/%d%s", kind, s, tk.Ext), Body: base64.StdEncoding.EncodeToString(mb), CL: true, What: "well-formed media afterwards"}); v != nil || code != 200 {
				if v != nil {
					return v, inf
				}
				return hx.V("rx-after", "after the hostile uploads well-formed media #%d on a fresh channel is answered %d", s, code), inf
			}
		}
	}
	r.R.VerifQuiesce("after")
	for _, kind := range []string{"video", "audio"} {
		for s := 0; s < 3; s++ {
			p := fmt.Sprintf("%s/after/%s/%d%s", dir, kind, s, rx.Kinds[kind].Ext)
			if _, err := os.Stat(p); err != nil {
				return hx.V("rx-after", "well-formed segment uploaded after the hostile ones was not stored: %v", err), inf
			}
		}
	}
	return nil, inf
}

func TestC08Receiver(t *testing.T) {
	run := hx.Start(t, "C08")
	defer run.Finish()
	if run.Replaying() {
		if run.ReplayTest() != t.Name() {
			return
		}
		var c RxCase
		run.ReplayCase(&c)
		if v, _ := checkRx(run, c); v != nil {
			run.Fail(t, c, v)
		}
		return
	}
	run.Essential("rx:accepted", "rx:refused", "rx:mutated-body")
	run.Rapid(t, 2, 150, 1500, func(rt *rapid.T) {
		c := genRx(rt)
		run.Journal(c)
		v, inf := checkRx(run, c)
		cls := []string{"rx"}
		if inf.accepted > 0 {
			cls = append(cls, "rx:accepted")
		}
		if inf.refused > 0 {
			cls = append(cls, "rx:refused")
		}
		if inf.hostile > 0 {
			cls = append(cls, "rx:mutated-body")
		}
		if inf.hostile >= 2 && inf.accepted >= 1 {
			run.NonTrivial(c)
		}
		if c.Clamped > 0 {
			run.CountExcluded("KF-C08-rx-declared-counts")
		}
		run.Eval(cls...)
		if len(c.Ups) > 0 {
			run.Sample(map[string]any{"uploads": len(c.Ups), "first": c.Ups[0].What, "last": c.Ups[len(c.Ups)-1].What, "accepted": inf.accepted, "refused": inf.refused})
		}
		if v != nil {
			if v.Kind == "harness" {
				rt.Fatalf("HARNESS: %s", v.Msg)
			}
			run.Fail(rt, c, v)
		}
	})
}

// firstRepoFrame extracts the innermost livesim2 (or mp4ff) frames of a stack trace.
func firstRepoFrame(st string) string {
	var out []string
	lines := strings.Split(st, "\n")
	for i := 0; i+1 < len(lines) && len(out) < 3; i++ {
		if (strings.Contains(lines[i], "Dash-Industry-Forum/livesim2") || strings.Contains(lines[i], "mp4ff")) && !strings.Contains(lines[i], "verifharness") {
			f := lines[i]
			if k := strings.LastIndex(f, "("); k > 0 {
				f = f[:k]
			}
			loc := strings.TrimSpace(lines[i+1])
			if k := strings.Index(loc, " +0x"); k > 0 {
				loc = loc[:k]
			}
			out = append(out, f[strings.LastIndex(f, "/")+1:]+" ("+loc[strings.LastIndex(loc, "/")+1:]+")")
		}
	}
	return strings.Join(out, " <- ")
}
