// C10 — advertised key ids, init segments, licences and ciphertext agree.
package c10

import (
	"bytes"
	"encoding/base64"
	"encoding/hex"
	"encoding/json"
	"encoding/xml"
	"fmt"
	"net/url"
	"os"
	"path/filepath"
	"strings"
	"sync"
	"testing"

	"github.com/Dash-Industry-Forum/livesim2/cmd/livesim2/app"
	"github.com/Eyevinn/mp4ff/bits"
	"github.com/Eyevinn/mp4ff/mp4"
	"pgregory.net/rapid"
	"verifharness/internal/assetgen"
	"verifharness/internal/env"
	"verifharness/internal/gen"
	"verifharness/internal/hx"
	"verifharness/internal/ls"
	"verifharness/internal/mp4x"
	"verifharness/internal/mpdx"
	"verifharness/internal/refmodel"
)

type Case struct {
	Target  env.Target   `json:"target"`
	Cfg     refmodel.Cfg `json:"cfg"`
	DRM     string       `json:"drm"` // eccp_cenc | eccp_cbcs | drm_<package>
	RepID   string       `json:"rep"`
	N       int64        `json:"n"`
	Chunked bool         `json:"chunked"`
	// ChunkKind (with Chunked): "" = ato 3/4 + chunkdur 1/4 of the segment | "no-ato" = chunkdur_0.5 alone (one chunk covers the
	// segment) | "tiny-ato" = ato_0.01 + chunkdur_0.5 (one chunk covers the shorter of the re-segmented audio segments)
	ChunkKind string `json:"chunk_kind,omitempty"`
	Regime  string       `json:"regime"`
}

var encBundled = []string{"testpic_2s", "testpic_6s", "testpic_8s", "testpic_alt_seg_dur_stl", "WAVE/vectors/cfhd_sets/14.985_29.97_59.94/t1/2022-10-17"}
var drmModes = []string{"eccp_cenc", "eccp_cbcs", "eccp_cenc", "eccp_cbcs", "drm_EZDRM-1-key-cbcs-test", "drm_EZDRM-2-keys-cbcs-test",
	// packages the harness derives from the one-key test package (ls.DrmConfigFile): scheme cenc, and both schemes without explicitIV
	"drm_VERIF-1-key-cenc", "drm_VERIF-1-key-cbcs-noiv", "drm_VERIF-1-key-cenc-noiv"}

// derivedSrv serves the bundled assets with the derived DRM configuration.
var derivedSrv = sync.OnceValues(func() (*ls.Server, error) {
	return ls.New(ls.BundledRoot, func(c *app.ServerConfig) { c.DrmCfgFile = ls.DrmConfigFile() })
})

func genCase(t *rapid.T) (Case, *env.Env) {
	// generated layouts are served by their own server without a DRM configuration: ClearKey modes only there
	tg := gen.Target(t, assetgen.Opts{Audio: []string{"aac", "aac", ""}, MinFrames: 10, MaxFrames: 120}, 55, encBundled)
	if tg.Layout != nil && rapid.IntRange(0, 2).Draw(t, "avc3") == 0 {
		tg.Layout.VCodec = "avc3.64001e" // the other AVC sample entry name: video all the same
	}
	if tg.Layout != nil {
		tg.Layout.ASCodecs = rapid.IntRange(0, 2).Draw(t, "as-codecs") == 0 // @codecs on the AdaptationSet instead of the Representation
	}
	e, err := env.Get(tg)
	if err != nil {
		t.Fatalf("HARNESS: %v", err)
	}
	segMS := int64(e.Asset.LoopMS) / int64(len(e.Asset.Ref.Segs))
	cfg := gen.Cfg(t, []string{"number", "time", "tlnr"}, segMS, false)
	cfg.TsbdS, cfg.HasTsbd = 60, false
	if tg.Layout != nil && tg.Layout.AvgSegMS() < 1000 {
		cfg.Extra = []string{"mup_1"}
	}
	c := Case{Target: tg, Cfg: cfg}
	if tg.Layout != nil {
		c.DRM = rapid.SampledFrom(drmModes[:2]).Draw(t, "drm")
	} else {
		c.DRM = rapid.SampledFrom(drmModes).Draw(t, "drm")
	}
	var ids []string
	for _, id := range e.Asset.RepIDs() {
		r := e.Asset.Reps[id]
		if (r.ContentType == "video" && strings.HasPrefix(r.Codecs, "avc")) || (r.ContentType == "audio" && strings.HasPrefix(r.Codecs, "mp4a.40")) {
			ids = append(ids, id)
		}
	}
	if len(ids) == 0 {
		t.Fatalf("HARNESS: no encryptable representation in %s", tg.Name())
	}
	c.RepID = rapid.SampledFrom(ids).Draw(t, "rep")
	tl := refmodel.NewTimeline(e.Asset, e.Asset.Reps[c.RepID], cfg)
	c.N, c.Regime = gen.Index(t, tl, cfg.StartS)
	// chunked low-latency delivery needs a constant segment duration (chunk duration = segment duration - ato)
	uniform := true
	for _, s := range e.Asset.Ref.Segs {
		if s.Dur() != e.Asset.Ref.Segs[0].Dur() {
			uniform = false
		}
	}
	// livesim2 derives the chunk duration from the asset-wide (shortest average) VoD segment duration: layouts whose audio
	// has a VoD grid of its own are refused with 400 for this ato (DESIGN §14.4 O7) and are not drawn for chunked cases
	for _, r := range e.Asset.Reps {
		if len(r.Segs) != len(e.Asset.Ref.Segs) {
			uniform = false
		}
	}
	if uniform && segMS >= 1000 && rapid.IntRange(0, 3).Draw(t, "chunked?") == 0 {
		c.Chunked = true
		c.ChunkKind = rapid.SampledFrom([]string{"", "", "", "", "", "no-ato", "tiny-ato"}).Draw(t, "chunk-kind")
	}
	return c, e
}

// safeDecrypt turns a panic of the decryptor (sample auxiliary information that points outside the sample) into an error
func safeDecrypt(sg *mp4.MediaSegment, di mp4.DecryptInfo, key []byte) (err error) {
	defer func() {
		if p := recover(); p != nil {
			err = fmt.Errorf("decryptor panicked: %v", p)
		}
	}()
	return mp4.DecryptSegment(sg, di, key)
}

// ---- CPIX (own reading) ----------------------------------------------------------------------

type cpixKey struct {
	Kid    string `xml:"kid,attr"`
	Scheme string `xml:"commonEncryptionScheme,attr"`
	Plain  string `xml:"Data>Secret>PlainValue"`
}

var cpixCache = map[string]map[string][]byte{}
var cpixScheme = map[string]string{}

func cpixKeys(pkg string) (map[string][]byte, error) {
	if m, ok := cpixCache[pkg]; ok {
		return m, nil
	}
	dir := filepath.Dir(ls.DrmConfigFile())
	data, err := os.ReadFile(ls.DrmConfigFile())
	if err != nil {
		return nil, err
	}
	var cfg struct {
		Packages []struct {
			Name     string `json:"name"`
			CpixFile string `json:"cpixFile"`
		} `json:"packages"`
	}
	if err := json.Unmarshal(data, &cfg); err != nil {
		return nil, err
	}
	for _, p := range cfg.Packages {
		if p.Name != pkg {
			continue
		}
		x, err := os.ReadFile(filepath.Join(dir, p.CpixFile))
		if err != nil {
			return nil, err
		}
		var doc struct {
			Keys []cpixKey `xml:"ContentKeyList>ContentKey"`
		}
		if err := xml.Unmarshal(x, &doc); err != nil {
			return nil, err
		}
		m := map[string][]byte{}
		for _, k := range doc.Keys {
			b, err := base64.StdEncoding.DecodeString(strings.TrimSpace(k.Plain))
			if err != nil {
				return nil, err
			}
			m[strings.ReplaceAll(strings.ToLower(k.Kid), "-", "")] = b
			cpixScheme[pkg] = k.Scheme
		}
		cpixCache[pkg] = m
		return m, nil
	}
	return nil, fmt.Errorf("package %s not in the DRM test configuration", pkg)
}

type info struct {
	protected bool
	frags     int
	refused   bool
}

func checkCase(c Case, e *env.Env) (*hx.Violation, info) {
	var inf info
	rep := e.Asset.Reps[c.RepID]
	if rep == nil {
		return hx.V("harness", "rep"), inf
	}
	tl := refmodel.NewTimeline(e.Asset, rep, c.Cfg)
	ts := tl.TS()
	clearParts := c.Cfg.Parts()
	if c.Chunked {
		segMS := int64(e.Asset.LoopMS) / int64(len(e.Asset.Ref.Segs))
		switch c.ChunkKind {
		case "no-ato":
			clearParts = append(clearParts, "chunkdur_0.5")
		case "tiny-ato":
			clearParts = append(clearParts, "ato_0.01", "chunkdur_0.5")
		default:
			clearParts = append(clearParts, "ato_"+refmodel.FormatMS(segMS*3/4), "chunkdur_"+refmodel.FormatMS(segMS/4))
		}
	}
	parts := append(append([]string{}, clearParts...), c.DRM)
	// an instant after the segment's end: chunked delivery then never waits
	now := gen.CeilDivU(c.Cfg.StartS*1000*ts+tl.End(c.N)*1000, ts) + 5
	mpdName := ""
	for n := range e.Asset.MPDs {
		has := false
		for _, id := range e.Asset.RepsOfType(n, rep.ContentType) {
			has = has || id == rep.ID
		}
		if has && (mpdName == "" || n < mpdName) {
			mpdName = n
		}
	}
	if mpdName == "" {
		return hx.V("harness", "no MPD lists %s", rep.ID), inf
	}
	// (1) the MPD announces scheme and default_KID
	srv := e.Srv
	noIV := strings.HasSuffix(c.DRM, "-noiv")
	if strings.HasPrefix(c.DRM, "drm_VERIF-") {
		ds, derr := derivedSrv()
		if derr != nil {
			return hx.V("harness", "server with the derived DRM configuration: %v", derr), inf
		}
		srv = ds
	}
	// a package whose key carries no explicitIV may be refused (there is no IV to announce for cbcs); what is served must decrypt
	refused := func(r ls.Resp) bool { return noIV && r.Code >= 400 }
	murl := ls.URL(parts, e.Asset.Path, mpdName, now)
	mr := srv.Get(murl)
	if refused(mr) {
		inf.refused = true
		return nil, inf
	}
	if mr.Code != 200 {
		return hx.V("mpd-status", "%s -> %v", murl, mr), inf
	}
	m, err := mpdx.Parse(mr.Body)
	if err != nil {
		return hx.V("mpd-unparsable", "%v", err), inf
	}
	var as *mpdx.AS
	for i := range m.Periods[0].AS {
		for _, r := range m.Periods[0].AS[i].Reps {
			if r.ID == rep.ID {
				as = &m.Periods[0].AS[i]
			}
		}
	}
	if as == nil {
		return hx.V("harness", "rep %s not in %s", rep.ID, murl), inf
	}
	var kidHex, scheme, laURL string
	for _, cp := range as.ContentProtections {
		if cp.SchemeIdUri == "urn:mpeg:dash:mp4protection:2011" {
			kidHex = strings.ReplaceAll(strings.ToLower(cp.DefaultKID), "-", "")
			scheme = cp.Value
		}
		if l := strings.TrimSpace(cp.Laurl + cp.LaurlDashif); l != "" && strings.Contains(cp.SchemeIdUri, "e2719d58-a985-b3c9-781a-b030af78d30e") {
			laURL = l
		}
	}
	if len(kidHex) != 32 {
		return hx.V("mpd-no-kid", "%s: no mp4protection ContentProtection with default_KID for %s (%+v)", murl, rep.ID, as.ContentProtections), inf
	}
	wantScheme := strings.TrimPrefix(c.DRM, "eccp_")
	if strings.HasPrefix(c.DRM, "drm_") {
		if _, err := cpixKeys(strings.TrimPrefix(c.DRM, "drm_")); err != nil {
			return hx.V("harness", "%v", err), inf
		}
		wantScheme = cpixScheme[strings.TrimPrefix(c.DRM, "drm_")]
	}
	if scheme != wantScheme {
		return hx.V("mpd-scheme", "%s: scheme %q, requested %s", murl, scheme, c.DRM), inf
	}
	// (2) the init segment's protection box carries the same key id and scheme
	iurl := ls.URL(parts, e.Asset.Path, rep.InitURI, now)
	ir := srv.Get(iurl)
	if refused(ir) {
		inf.refused = true
		return nil, inf
	}
	if ir.Code != 200 {
		return hx.V("init-status", "%s -> %v", iurl, ir), inf
	}
	f, err := mp4.DecodeFileSR(bits.NewFixedSliceReader(ir.Body))
	if err != nil || f.Init == nil {
		return hx.V("init-unparsable", "%s: %v", iurl, err), inf
	}
	di, err := mp4.DecryptInit(f.Init)
	if err != nil {
		return hx.V("init-unparsable", "%s: DecryptInit: %v", iurl, err), inf
	}
	var sinf *mp4.SinfBox
	for _, ti := range di.TrackInfos {
		if ti.Sinf != nil {
			sinf = ti.Sinf
		}
	}
	if sinf == nil || sinf.Schi == nil || sinf.Schi.Tenc == nil {
		return hx.V("init-not-protected", "%s: init segment has no protection scheme information", iurl), inf
	}
	if got := hex.EncodeToString(sinf.Schi.Tenc.DefaultKID); got != kidHex {
		return hx.V("kid-mismatch", "MPD default_KID %s, init segment tenc.default_KID %s (%s)", kidHex, got, iurl), inf
	}
	if sinf.Schm.SchemeType != wantScheme {
		return hx.V("init-scheme", "%s: scheme %q, requested %s", iurl, sinf.Schm.SchemeType, c.DRM), inf
	}
	// (3) the licence endpoint (ClearKey) / the CPIX document returns a key for that id
	var key []byte
	kidBytes, _ := hex.DecodeString(kidHex)
	if strings.HasPrefix(c.DRM, "eccp_") {
		if laURL == "" {
			return hx.V("mpd-no-laurl", "%s: no ClearKey licence URL", murl), inf
		}
		u, err := url.Parse(laURL)
		if err != nil {
			return hx.V("mpd-laurl", "%q: %v", laURL, err), inf
		}
		b64 := strings.TrimRight(base64.URLEncoding.EncodeToString(kidBytes), "=")
		body, _ := json.Marshal(map[string]any{"kids": []string{b64}, "type": "temporary"})
		lr := srv.Do("POST", u.Path, body, map[string]string{"Content-Type": "application/json"})
		if lr.Code != 200 {
			return hx.V("licence-status", "POST %s -> %v", u.Path, lr), inf
		}
		var resp struct {
			Keys []struct{ Kty, K, Kid string } `json:"keys"`
		}
		if err := json.Unmarshal(lr.Body, &resp); err != nil || len(resp.Keys) != 1 {
			return hx.V("licence-body", "POST %s: %q (%v)", u.Path, lr.Body, err), inf
		}
		if resp.Keys[0].Kid != b64 {
			return hx.V("licence-kid", "licence for kid %s answers kid %s", b64, resp.Keys[0].Kid), inf
		}
		key, err = base64.RawURLEncoding.DecodeString(resp.Keys[0].K)
		if err != nil || len(key) != 16 {
			return hx.V("licence-key", "key %q: %v", resp.Keys[0].K, err), inf
		}
	} else {
		keys, err := cpixKeys(strings.TrimPrefix(c.DRM, "drm_"))
		if err != nil {
			return hx.V("harness", "%v", err), inf
		}
		var ok bool
		key, ok = keys[kidHex]
		if !ok {
			return hx.V("kid-not-in-cpix", "MPD default_KID %s is not a content key of the CPIX document", kidHex), inf
		}
	}
	// (4) decrypting the served segment gives exactly the clear segment of the same URL and instant
	name := tl.SegName(rep, c.N)
	eurl, curl := ls.URL(parts, e.Asset.Path, name, now), ls.URL(clearParts, e.Asset.Path, name, now)
	er, cr := srv.Get(eurl), srv.Get(curl)
	if refused(er) && cr.Code == 200 {
		inf.refused = true
		return nil, inf
	}
	if er.Code != 200 || cr.Code != 200 {
		return hx.V("segment-status", "%s -> %d, %s -> %d", eurl, er.Code, curl, cr.Code), inf
	}
	clear, err := mp4x.Parse(cr.Body, rep.Trex)
	if err != nil {
		return hx.V("harness", "clear segment: %v", err), inf
	}
	// decoded together with its init segment: without the init's tenc box the decoder has to guess the per-sample IV size
	// of every senc box, and a guess can come out wrong (it then reads IV bytes as subsample sizes)
	ef, err := mp4.DecodeFileSR(bits.NewFixedSliceReader(append(append([]byte{}, ir.Body...), er.Body...)))
	if err != nil {
		return hx.V("segment-unparsable", "%s: %v", eurl, err), inf
	}
	// ciphertext must differ from the clear payload somewhere
	encView, err := mp4x.Parse(er.Body, rep.Trex)
	if err != nil {
		return hx.V("segment-unparsable", "%s: %v", eurl, err), inf
	}
	es, cs := encView.AllSamples(), clear.AllSamples()
	if len(es) != len(cs) {
		return hx.V("sample-count", "%s: %d samples, clear segment %d", eurl, len(es), len(cs)), inf
	}
	for i := range es {
		if !bytes.Equal(es[i].Data, cs[i].Data) {
			inf.protected = true
		}
	}
	if !inf.protected {
		return hx.V("not-encrypted", "%s: payload equals the clear segment", eurl), inf
	}
	var dec []mp4x.Sample
	for _, sg := range ef.Segments {
		if err := safeDecrypt(sg, di, key); err != nil {
			return hx.V("decrypt-error", "%s: %v", eurl, err), inf
		}
		for _, fr := range sg.Fragments {
			inf.frags++
			fss, err := fr.GetFullSamples(rep.Trex)
			if err != nil {
				return hx.V("decrypt-error", "%s: %v", eurl, err), inf
			}
			dec = append(dec, mp4x.FromFull(fss)...)
		}
	}
	if err := mp4x.SameMedia(dec, cs, true); err != nil {
		return hx.V("decrypted-differs", "%s decrypted with the key of kid %s differs from %s: %v", eurl, kidHex, curl, err), inf
	}
	return nil, inf
}

func TestC10(t *testing.T) {
	run := hx.Start(t, "C10")
	defer run.Finish()
	if run.Replaying() {
		if run.ReplayTest() != t.Name() {
			return
		}
		var c Case
		run.ReplayCase(&c)
		e, err := env.Get(c.Target)
		if err != nil {
			t.Fatalf("HARNESS: %v", err)
		}
		if v, _ := checkCase(c, e); v != nil {
			run.Fail(t, c, v)
		}
		return
	}
	run.Essential("drm:eccp_cenc", "drm:eccp_cbcs", "drm:cpix", "kind:audio", "kind:video", "chunked")
	run.Rapid(t, 1, 700, 3000, func(rt *rapid.T) {
		c, e := genCase(rt)
		v, inf := checkCase(c, e)
		d := c.DRM
		if strings.HasPrefix(d, "drm_") {
			d = "cpix"
		}
		cls := []string{"drm:" + d, "kind:" + e.Asset.Reps[c.RepID].ContentType, "addr:" + c.Cfg.Type, "n:" + c.Regime}
		if c.Chunked {
			cls = append(cls, "chunked")
		}
		if c.Target.Layout != nil {
			cls = append(cls, "asset:generated")
		}
		if strings.HasPrefix(c.DRM, "drm_VERIF-") {
			cls = append(cls, "cpix:derived-package")
		}
		if inf.refused {
			cls = append(cls, "cpix:no-explicitIV-refused")
		}
		if inf.protected && v == nil {
			run.NonTrivial(c)
		}
		run.Eval(cls...)
		run.Sample(map[string]any{"asset": c.Target.Name(), "rep": c.RepID, "drm": c.DRM, "url_parts": c.Cfg.Parts(), "n": c.N, "chunked": c.Chunked, "fragments": inf.frags})
		if v != nil {
			if v.Kind == "harness" {
				rt.Fatalf("HARNESS: %s", v.Msg)
			}
			run.Fail(rt, c, v)
		}
	})
}

// ---- a pre-encrypted asset is refused, never encrypted twice -------------------------------------------

func TestC10PreEncrypted(t *testing.T) {
	run := hx.Start(t, "C10")
	defer run.Finish()
	if run.Replaying() {
		return
	}
	// build a pre-encrypted VoD asset from what livesim2 itself serves with eccp_cenc / eccp_cbcs
	for _, scheme := range []string{"cenc", "cbcs"} {
		src, err := env.Get(env.Target{Asset: "testpic_2s"})
		if err != nil {
			t.Fatalf("HARNESS: %v", err)
		}
		root := t.TempDir()
		dir := filepath.Join(root, "preenc")
		if err := os.MkdirAll(filepath.Join(dir, "V300"), 0o755); err != nil {
			t.Fatal(err)
		}
		parts := []string{"eccp_" + scheme}
		write := func(name string, b []byte) {
			if err := os.WriteFile(filepath.Join(dir, name), b, 0o644); err != nil {
				t.Fatal(err)
			}
		}
		ir := src.Srv.Get(ls.URL(parts, "testpic_2s", "V300/init.mp4", 100000))
		if ir.Code != 200 {
			t.Fatalf("HARNESS: encrypted init -> %v", ir)
		}
		write("V300/init.mp4", ir.Body)
		for i := 0; i < 4; i++ {
			sr := src.Srv.Get(ls.URL(parts, "testpic_2s", fmt.Sprintf("V300/%d.m4s", i), int64(i)*2000+2001))
			if sr.Code != 200 {
				t.Fatalf("HARNESS: encrypted segment -> %v", sr)
			}
			write(fmt.Sprintf("V300/%d.m4s", i+1), sr.Body)
		}
		// the audio track likewise (served segments are already cut to the audio frame grid)
		if err := os.MkdirAll(filepath.Join(dir, "A48"), 0o755); err != nil {
			t.Fatal(err)
		}
		air := src.Srv.Get(ls.URL(parts, "testpic_2s", "A48/init.mp4", 100000))
		if air.Code != 200 {
			t.Fatalf("HARNESS: encrypted audio init -> %v", air)
		}
		write("A48/init.mp4", air.Body)
		for i := 0; i < 4; i++ {
			sr := src.Srv.Get(ls.URL(parts, "testpic_2s", fmt.Sprintf("A48/%d.m4s", i), int64(i)*2000+2001))
			if sr.Code != 200 {
				t.Fatalf("HARNESS: encrypted audio segment -> %v", sr)
			}
			write(fmt.Sprintf("A48/%d.m4s", i+1), sr.Body)
		}
		write("Manifest.mpd", []byte(`<?xml version="1.0" encoding="utf-8"?>
<MPD xmlns="urn:mpeg:dash:schema:mpd:2011" profiles="urn:mpeg:dash:profile:isoff-live:2011" minBufferTime="PT2S" type="static" mediaPresentationDuration="PT8S">
  <Period id="p0" start="PT0S">
    <AdaptationSet contentType="video" mimeType="video/mp4" segmentAlignment="true" startWithSAP="1">
      <SegmentTemplate startNumber="1" initialization="$RepresentationID$/init.mp4" duration="2" media="$RepresentationID$/$Number$.m4s"/>
      <Representation id="V300" codecs="avc1.64001e" bandwidth="300000" width="640" height="360"/>
    </AdaptationSet>
    <AdaptationSet contentType="audio" mimeType="audio/mp4" lang="en" segmentAlignment="true" startWithSAP="1">
      <SegmentTemplate startNumber="1" initialization="$RepresentationID$/init.mp4" duration="2" media="$RepresentationID$/$Number$.m4s"/>
      <Representation id="A48" codecs="mp4a.40.2" bandwidth="48000" audioSamplingRate="48000"/>
    </AdaptationSet>
  </Period>
</MPD>
`))
		srv, err := ls.New(root, func(c *app.ServerConfig) { c.DrmCfgFile = ls.RepoRoot() + "/pkg/drm/testdata/drm_config_test.json" })
		if err != nil {
			t.Fatalf("HARNESS: pre-encrypted asset does not load: %v", err)
		}
		plain := srv.Get(ls.URL(nil, "preenc", "V300/5.m4s", 13000))
		if plain.Code != 200 {
			t.Fatalf("HARNESS: pre-encrypted asset is not served without DRM: %v", plain)
		}
		for _, drm := range []string{"eccp_cenc", "eccp_cbcs", "drm_EZDRM-1-key-cbcs-test", "drm_EZDRM-2-keys-cbcs-test"} {
			// the audio init may be answered unchanged; a second protection layer around it is not acceptable
			if r := srv.Get(ls.URL([]string{drm}, "preenc", "A48/init.mp4", 13000)); r.Code == 200 && !bytes.Equal(r.Body, air.Body) {
				run.Fail(t, map[string]any{"url": "A48/init.mp4 with " + drm, "asset_scheme": scheme}, hx.V("pre-encrypted-not-refused", "audio init of an asset already encrypted with %s is served modified (%d bytes, stored %d) with %s", scheme, len(r.Body), len(air.Body), drm))
			}
			for _, file := range []string{"Manifest.mpd", "V300/5.m4s", "A48/5.m4s"} {
				for _, typ := range [][]string{nil, {"segtimeline_1"}} {
					u := ls.URL(append(append([]string{}, typ...), drm), "preenc", strings.Replace(file, "5.m4s", map[bool]string{true: "900000.m4s", false: "5.m4s"}[len(typ) > 0], 1), 13000)
					r := srv.Get(u)
					run.Eval("pre-encrypted:" + scheme)
					run.NonTrivial(u + scheme)
					run.Sample(map[string]any{"kind": "pre-encrypted", "asset_scheme": scheme, "url": u, "status": r.Code})
					if r.Code == 200 {
						run.Fail(t, map[string]any{"url": u, "asset_scheme": scheme}, hx.V("pre-encrypted-not-refused", "%s -> 200 on an asset that is already encrypted with %s", u, scheme))
					}
				}
			}
		}
	}
}
