// C03 — audio is re-segmented to follow video boundaries without loss or duplication.
package c03

import (
	"bytes"
	"fmt"
	"testing"

	"pgregory.net/rapid"
	"verifharness/internal/assetgen"
	"verifharness/internal/env"
	"verifharness/internal/gen"
	"verifharness/internal/hx"
	"verifharness/internal/ls"
	"verifharness/internal/mp4x"
	"verifharness/internal/mpdx"
	"verifharness/internal/refmodel"
	"verifharness/internal/vod"
)

type Case struct {
	Target env.Target   `json:"target"`
	RepID  string       `json:"rep"`
	Cfg    refmodel.Cfg `json:"cfg"`
	N      int64        `json:"n"`
	Regime string       `json:"regime"`
}

var audioBundled = []string{"testpic_2s", "testpic_6s", "testpic_8s", "testpic_alt_seg_dur_stl", "bbb_hevc_ac3_8s",
	"WAVE/vectors/cfhd_sets/14.985_29.97_59.94/t1/2022-10-17"}

func genCase(t *rapid.T) (Case, *env.Env) {
	tg := gen.Target(t, assetgen.Opts{ForceAudio: true, Audio2: true, Audio: []string{"aac", "aac", "ac3"}, AudioDelta: []int{0, 0, 0, -1, -2, -3, 1, 2, 3, -5, -9}}, 25, audioBundled)
	e, err := env.Get(tg)
	if err != nil {
		t.Fatalf("HARNESS: %v", err)
	}
	rep := gen.RepOfKinds(t, e.Asset, "audio")
	if rep == nil || e.Asset.Ref.ContentType != "video" {
		t.Fatalf("HARNESS: target %s has no audio+video", tg.Name())
	}
	segMS := int64(e.Asset.LoopMS) / int64(len(e.Asset.Ref.Segs))
	cfg := gen.Cfg(t, []string{"number", "time", "tlnr"}, segMS, false)
	cfg.TsbdS, cfg.HasTsbd = 60, false
	if tg.Layout != nil && tg.Layout.AvgSegMS() < 1000 {
		cfg.Extra = []string{"mup_1"}
	}
	tl := refmodel.NewTimeline(e.Asset, rep, cfg)
	n, regime := gen.Index(t, tl, cfg.StartS)
	return Case{Target: tg, RepID: rep.ID, Cfg: cfg, N: n, Regime: regime}, e
}

var frameCache = map[string][]mp4x.Sample{}

// vodFrames returns all VoD audio frames of the loop in order.
func vodFrames(a *vod.Asset, rep *vod.Rep) ([]mp4x.Sample, error) {
	key := a.Dir + "/" + rep.ID
	if f, ok := frameCache[key]; ok {
		return f, nil
	}
	var all []mp4x.Sample
	for i := range rep.Segs {
		fss, err := a.ReadSamples(rep, i)
		if err != nil {
			return nil, err
		}
		all = append(all, mp4x.FromFull(fss)...)
	}
	if len(frameCache) > 64 {
		frameCache = map[string][]mp4x.Sample{}
	}
	frameCache[key] = all
	return all, nil
}

type info struct {
	nearWrap, padding, spansVodSegs bool
	audioVsVideoLoop                int // -1 shorter, 0 equal, +1 longer
}

func availNow(tl *refmodel.Timeline, n int64) int64 {
	return gen.CeilDivU(tl.AvailU(n), tl.TS()) + 1
}

func checkCase(c Case, e *env.Env) (*hx.Violation, info) {
	var inf info
	rep := e.Asset.Reps[c.RepID]
	if rep == nil || rep.SampleDur == 0 {
		return hx.V("harness", "rep %s unusable", c.RepID), inf
	}
	F := int64(rep.SampleDur)
	tl := refmodel.NewTimeline(e.Asset, rep, c.Cfg)
	rts := tl.TS()
	frames, err := vodFrames(e.Asset, rep)
	if err != nil {
		return hx.V("harness", "%v", err), inf
	}
	aLoop := int64(len(frames)) * F
	vLoopA := tl.LoopTicks() * int64(rep.Timescale) // compare aLoop*rts with LoopTicks*ats
	switch {
	case aLoop*rts < vLoopA:
		inf.audioVsVideoLoop = -1
	case aLoop*rts > vLoopA:
		inf.audioVsVideoLoop = 1
	}
	aS := refmodel.AudioTime(tl.Start(c.N), rts, rep)
	aE := refmodel.AudioTime(tl.End(c.N), rts, rep)
	// the model itself: start less than one frame after the video segment start
	url := ls.URL(c.Cfg.Parts(), e.Asset.Path, tl.SegName(rep, c.N), availNow(tl, c.N))
	r := e.Srv.Get(url)
	kindPrefix := ""
	if inf.audioVsVideoLoop != 0 {
		kindPrefix = "loopdiff-"
	}
	if r.Code != 200 {
		return hx.V(kindPrefix+"status", "%s -> %v, expected 200 (audio loop vs video loop: %+d)", url, r, inf.audioVsVideoLoop), inf
	}
	seg, err := mp4x.Parse(r.Body, rep.Trex)
	if err != nil {
		return hx.V("unparsable", "%s: %v", url, err), inf
	}
	if int64(seg.Start()) != aS {
		return hx.V(kindPrefix+"start", "%s: audio segment starts at %d, expected %d (first frame boundary at or after video start %d/%d)", url, seg.Start(), aS, tl.Start(c.N), rts), inf
	}
	got := seg.AllSamples()
	if int64(len(got)) != (aE-aS)/F {
		return hx.V(kindPrefix+"frame-count", "%s: %d frames, expected %d ([%d,%d) / %d)", url, len(got), (aE-aS)/F, aS, aE, F), inf
	}
	for _, fr := range seg.Frags {
		if int64(fr.Seq) != tl.Number(c.N) {
			return hx.V("sequence-number", "%s: sequence number %d, expected %d", url, fr.Seq, tl.Number(c.N)), inf
		}
	}
	w, _ := tl.Split(c.N)
	wrapStart := func(w int64) int64 { return refmodel.AudioTime(w*tl.LoopTicks(), rts, rep) }
	segOfFrame := func(k int64) int {
		acc := int64(0)
		for i, s := range rep.Segs {
			acc += int64(s.Dur()) / F
			if k < acc {
				return i
			}
		}
		return len(rep.Segs) - 1
	}
	firstSeg, lastSeg := -1, -1
	for i, s := range got {
		T := aS + int64(i)*F
		if int64(s.DecodeTime) != T || int64(s.Dur) != F {
			return hx.V(kindPrefix+"frame-time", "%s: frame %d at %d dur %d, expected %d dur %d", url, i, s.DecodeTime, s.Dur, T, F), inf
		}
		ww := w
		if T >= wrapStart(w+1) {
			ww = w + 1
			inf.nearWrap = true
		}
		k := (T - wrapStart(ww)) / F
		if k >= int64(len(frames)) {
			k = int64(len(frames)) - 1 // padding: the last VoD frame is repeated
			inf.padding = true
		}
		sg := segOfFrame(k)
		if firstSeg == -1 {
			firstSeg = sg
		}
		lastSeg = sg
		want := frames[k]
		if s.Size != want.Size || !bytes.Equal(s.Data, want.Data) {
			// which VoD frame is it?
			which := -1
			for j, f := range frames {
				if bytes.Equal(f.Data, s.Data) {
					which = j
					break
				}
			}
			return hx.V(kindPrefix+"frame-content", "%s: frame %d (audio time %d, wrap %d) is not VoD frame %d (it is VoD frame %d; -1 = none)", url, i, T, ww, k, which), inf
		}
	}
	if firstSeg != lastSeg {
		inf.spansVodSegs = true
	}
	i0 := c.N % tl.N()
	if i0 == 0 || i0 == tl.N()-1 {
		inf.nearWrap = true
	}
	// consecutive segments abut
	if tl.Number(c.N+1) < 1<<32-1 {
		url2 := ls.URL(c.Cfg.Parts(), e.Asset.Path, tl.SegName(rep, c.N+1), availNow(tl, c.N+1))
		r2 := e.Srv.Get(url2)
		if r2.Code != 200 {
			return hx.V(kindPrefix+"status", "%s -> %v, expected 200", url2, r2), inf
		}
		nx, err := mp4x.Parse(r2.Body, rep.Trex)
		if err != nil {
			return hx.V("unparsable", "%s: %v", url2, err), inf
		}
		if nx.Start() != seg.End() {
			return hx.V(kindPrefix+"gap", "audio segment n=%d ends at %d, n+1 starts at %d", c.N, seg.End(), nx.Start()), inf
		}
	}
	// Number and Time addressing return the same bytes
	for _, typ := range []string{"number", "time"} {
		if typ == c.Cfg.Type {
			continue
		}
		cfg2 := c.Cfg
		cfg2.Type = typ
		tl2 := refmodel.NewTimeline(e.Asset, rep, cfg2)
		url3 := ls.URL(cfg2.Parts(), e.Asset.Path, tl2.SegName(rep, c.N), availNow(tl2, c.N))
		r3 := e.Srv.Get(url3)
		if r3.Code != 200 || !bytes.Equal(r3.Body, r.Body) {
			return hx.V(kindPrefix+"addressing-differs", "%s -> %d (%d bytes) differs from %s (%d bytes)", url3, r3.Code, len(r3.Body), url, len(r.Body)), inf
		}
	}
	// the MPD's audio SegmentTimeline lists exactly (aS, aE-aS) for n as its newest entry
	if c.Cfg.Type != "number" {
		mpdName := "Manifest.mpd"
		for name := range e.Asset.MPDs {
			if len(e.Asset.RepsOfType(name, "audio")) > 0 && len(e.Asset.RepsOfType(name, "video")) > 0 {
				if mpdName == "Manifest.mpd" || name < mpdName {
					if _, ok := e.Asset.MPDs["Manifest.mpd"]; !ok || name == "Manifest.mpd" {
						mpdName = name
					}
				}
			}
		}
		murl := ls.URL(c.Cfg.Parts(), e.Asset.Path, mpdName, availNow(tl, c.N))
		mr := e.Srv.Get(murl)
		if mr.Code != 200 {
			return hx.V("mpd-status", "%s -> %v", murl, mr), inf
		}
		m, err := mpdx.Parse(mr.Body)
		if err != nil {
			return hx.V("harness", "MPD %s unparsable: %v", murl, err), inf
		}
		found := false
		for _, as := range m.Periods[0].AS {
			if as.Kind() != "audio" || as.Tmpl == nil {
				continue
			}
			for _, rp := range as.Reps {
				if rp.ID != rep.ID {
					continue
				}
				found = true
				decls, err := as.Tmpl.Expand()
				if err != nil || len(decls) == 0 {
					return hx.V("mpd-audio-timeline", "%s: audio timeline: %v (%d entries)", murl, err, len(decls)), inf
				}
				last := decls[len(decls)-1]
				if int64(last.T) != aS || int64(last.D) != aE-aS {
					return hx.V("mpd-audio-timeline", "%s: newest audio entry (t=%d,d=%d), served segment (t=%d,d=%d)", murl, last.T, last.D, aS, aE-aS), inf
				}
				// every listed entry follows the model
				base := c.N - int64(len(decls)-1)
				for j, d := range decls {
					nn := base + int64(j)
					if nn < 0 {
						return hx.V("mpd-audio-timeline", "%s: more entries than segments since start", murl), inf
					}
					ws, we := refmodel.AudioTime(tl.Start(nn), rts, rep), refmodel.AudioTime(tl.End(nn), rts, rep)
					if int64(d.T) != ws || int64(d.D) != we-ws {
						return hx.V("mpd-audio-timeline", "%s: audio entry %d (t=%d,d=%d), model (t=%d,d=%d) for n=%d", murl, j, d.T, d.D, ws, we-ws, nn), inf
					}
				}
			}
		}
		if !found {
			return hx.V("harness", "%s: audio rep %s not in MPD", murl, rep.ID), inf
		}
	}
	return nil, inf
}

func TestC03(t *testing.T) {
	run := hx.Start(t, "C03")
	defer run.Finish()
	if run.Replaying() {
		var c Case
		run.ReplayCase(&c)
		e, err := env.Get(c.Target)
		if err != nil {
			t.Fatalf("HARNESS: %v", err)
		}
		if v, _ := checkCase(c, e); v != nil {
			run.Fail(t, c, v)
		}
		return
	}
	run.Essential("near-wrap", "spans-vod-audio-segments", "addr:time", "addr:number")
	run.Rapid(t, 1, 1000, 6000, func(rt *rapid.T) {
		c, e := genCase(rt)
		v, inf := checkCase(c, e)
		cls := []string{"addr:" + c.Cfg.Type, "n:" + c.Regime, fmt.Sprintf("audio-loop-vs-video:%+d", inf.audioVsVideoLoop)}
		if c.Target.Layout != nil {
			cls = append(cls, "asset:generated", "codec:"+c.Target.Layout.Audio)
		} else {
			cls = append(cls, "asset:bundled")
		}
		if inf.nearWrap {
			cls = append(cls, "near-wrap")
		}
		if inf.padding {
			cls = append(cls, "padding")
		}
		if inf.spansVodSegs {
			cls = append(cls, "spans-vod-audio-segments")
		}
		if inf.nearWrap || inf.padding || inf.spansVodSegs {
			run.NonTrivial(c)
		}
		run.Eval(cls...)
		run.Sample(map[string]any{"asset": c.Target.Name(), "layout": c.Target.Layout, "url_parts": c.Cfg.Parts(), "n": c.N, "regime": c.Regime})
		if v != nil {
			if v.Kind == "harness" {
				rt.Fatalf("HARNESS: %s", v.Msg)
			}
			run.Fail(rt, c, v)
		}
	})
}
