// C02 — the live MPD and the segment server agree on what is available.
package c02

import (
	"bytes"
	"fmt"
	"strings"
	"testing"

	"pgregory.net/rapid"
	"verifharness/internal/assetgen"
	"verifharness/internal/env"
	"verifharness/internal/gen"
	"verifharness/internal/hx"
	"verifharness/internal/ls"
	"verifharness/internal/mp4x"
	"verifharness/internal/mpdx"
	"verifharness/internal/refmodel"
	"verifharness/internal/vod"
)

type Case struct {
	Target env.Target   `json:"target"`
	MPD    string       `json:"mpd"`
	Cfg    refmodel.Cfg `json:"cfg"`
	NowMS  int64        `json:"now_ms"`
	Regime string       `json:"regime"`
	Subs   string       `json:"subs,omitempty"` // "", "stpp", "wvtt": generated time subtitles (languages en,sv)
}

const maxNowMS = 4_102_444_800_000

func genCase(t *rapid.T) (Case, *env.Env) {
	tg := gen.Target(t, assetgen.Opts{AllowText: true, AllowThumb: true}, 40, nil)
	e, err := env.Get(tg)
	if err != nil {
		t.Fatalf("HARNESS: %v", err)
	}
	var names []string
	for n := range e.Asset.MPDs {
		names = append(names, n)
	}
	sortStrings(names)
	mpd := rapid.SampledFrom(names).Draw(t, "mpd")
	segMS := int64(e.Asset.LoopMS) / int64(len(e.Asset.Ref.Segs))
	cfg := gen.Cfg(t, []string{"number", "time", "tlnr"}, segMS, true)
	if cfg.Type != "number" && cfg.AtoInf() {
		cfg.AtoMS = segMS / 3 // infinite ato is rejected for SegmentTimeline MPDs (documented)
	}
	if cfg.TsbdS > 7200 && cfg.Type != "number" {
		cfg.TsbdS = 7200 // keeps explicit timelines at a size that can be fetched
	}
	if tg.Layout != nil && tg.Layout.AvgSegMS() < 1000 {
		cfg.Extra = []string{"mup_1"}
		if cfg.TsbdS > 600 {
			cfg.TsbdS = 600
		}
	}
	c := Case{Target: tg, MPD: mpd, Cfg: cfg}
	wholeMS := true // generated subtitles run on a millisecond timescale: only assets whose boundaries are whole ms
	for _, sg := range e.Asset.Ref.Segs {
		if sg.End*1000%e.Asset.Ref.Timescale != 0 {
			wholeMS = false
		}
	}
	if len(e.Asset.RepsOfType(mpd, "video")) > 0 && wholeMS {
		c.Subs = rapid.SampledFrom([]string{"", "", "", "stpp", "wvtt"}).Draw(t, "subs")
	}
	// the instant: around a breakpoint A_n of the reference timeline, or around the window-start crossing, or right after start
	tl := refmodel.NewTimeline(e.Asset, e.Asset.Ref, cfg)
	n, regime := gen.Index(t, tl, cfg.StartS)
	c.Regime = regime
	ts := tl.TS()
	var now int64
	switch rapid.SampledFrom([]string{"edge", "edge", "edge", "window", "interior", "right-after-start"}).Draw(t, "instant") {
	case "edge":
		if cfg.AtoInf() {
			now = gen.CeilDivU(cfg.StartS*1000*ts+tl.End(n)*1000, ts) + gen.Delta(t, segMS)
		} else {
			now = gen.CeilDivU(tl.AvailU(n), ts) + gen.Delta(t, segMS)
		}
	case "window": // a segment end leaves the window: end(n)+tsbd
		now = gen.CeilDivU(cfg.StartS*1000*ts+tl.End(n)*1000, ts) + cfg.TsbdS*1000 + gen.Delta(t, segMS)
	case "interior":
		now = gen.CeilDivU(cfg.StartS*1000*ts+tl.Start(n)*1000, ts) + int64(rapid.IntRange(0, int(segMS)).Draw(t, "in"))
	default:
		now = cfg.StartS*1000 + int64(rapid.IntRange(0, int(3*segMS)).Draw(t, "after-start"))
		c.Regime = "right-after-start"
	}
	if now < cfg.StartS*1000 {
		now = cfg.StartS * 1000
	}
	if now > maxNowMS {
		now = maxNowMS
	}
	c.NowMS = now
	return c, e
}

func sortStrings(s []string) {
	for i := range s {
		for j := i + 1; j < len(s); j++ {
			if s[j] < s[i] {
				s[i], s[j] = s[j], s[i]
			}
		}
	}
}

type info struct {
	listed      int
	fetched     int
	crossesWrap bool
	kinds       map[string]bool
}

// timingFor returns the timeline (timing rep, timescale) that governs an adaptation set.
func timingFor(e *env.Env, cfg refmodel.Cfg, as *mpdx.AS) (*refmodel.Timeline, *vod.Rep, bool) {
	id := as.Reps[0].ID
	if strings.HasPrefix(id, "timestpp-") || strings.HasPrefix(id, "timewvtt-") {
		return refmodel.NewTimeline(e.Asset, e.Asset.Ref, cfg), nil, true
	}
	rep := e.Asset.Reps[id]
	if rep == nil {
		return nil, nil, false
	}
	return refmodel.NewTimeline(e.Asset, rep, cfg), rep, false
}

func pick(n int, max int) []int {
	if n <= 0 {
		return nil
	}
	if n <= max {
		out := make([]int, n)
		for i := range out {
			out[i] = i
		}
		return out
	}
	seen := map[int]bool{}
	var out []int
	add := func(i int) {
		if i >= 0 && i < n && !seen[i] {
			seen[i] = true
			out = append(out, i)
		}
	}
	for i := 0; i < 3; i++ {
		add(i)
		add(n - 1 - i)
	}
	for k := 1; len(out) < max && k < max; k++ {
		add(k * n / max)
	}
	return out
}

func checkCase(c Case, e *env.Env) (*hx.Violation, info) {
	inf := info{kinds: map[string]bool{}}
	parts := c.Cfg.Parts()
	if c.Subs != "" {
		parts = append(parts, "timesubs"+c.Subs+"_en,sv")
	}
	murl := ls.URL(parts, e.Asset.Path, c.MPD, c.NowMS)
	mr := e.Srv.Get(murl)
	if mr.Code != 200 {
		return hx.V("mpd-status", "%s -> %v", murl, mr), inf
	}
	m, err := mpdx.Parse(mr.Body)
	if err != nil {
		return hx.V("mpd-unparsable", "%s: %v", murl, err), inf
	}
	if len(m.Periods) != 1 {
		return hx.V("mpd-periods", "%s: %d periods", murl, len(m.Periods)), inf
	}
	astMS, err := mpdx.TimeMS(m.AvailabilityStartTime)
	if err != nil || astMS != c.Cfg.StartS*1000 {
		return hx.V("mpd-ast", "%s: availabilityStartTime %q, expected %d s", murl, m.AvailabilityStartTime, c.Cfg.StartS), inf
	}
	tsbdMS, err := mpdx.DurationMS(m.TimeShiftBufferDepth)
	if err != nil || tsbdMS != c.Cfg.TsbdS*1000 {
		return hx.V("mpd-tsbd", "%s: timeShiftBufferDepth %q, expected %d s", murl, m.TimeShiftBufferDepth, c.Cfg.TsbdS), inf
	}
	get := func(name string) (ls.Resp, string) {
		u := ls.URL(parts, e.Asset.Path, name, c.NowMS)
		return e.Srv.Get(u), u
	}
	for ai := range m.Periods[0].AS {
		as := &m.Periods[0].AS[ai]
		if as.Tmpl == nil || len(as.Reps) == 0 {
			return hx.V("mpd-template", "%s: adaptation set %d without SegmentTemplate/Representation", murl, ai), inf
		}
		kind := as.Kind()
		tl, rep, isSubs := timingFor(e, c.Cfg, as)
		if tl == nil {
			return hx.V("harness", "unknown representation %s in %s", as.Reps[0].ID, murl), inf
		}
		if isSubs {
			kind = "timesubs"
		}
		inf.kinds[kind] = true
		// media timescale of the adaptation set as served
		var trexRep *vod.Rep = rep
		loN, hiN := tl.NewestRange(c.NowMS, tl.TS()) // 1 ms: the MPD path truncates to media ticks
		lastN, ambiguous := hiN, loN != hiN
		decls, err := as.Tmpl.Expand()
		if err != nil {
			return hx.V("timeline-not-contiguous", "%s: %s adaptation set: %v", murl, kind, err), inf
		}
		for _, rp := range as.Reps {
			r0 := e.Asset.Reps[rp.ID]
			if !isSubs && r0 == nil {
				return hx.V("harness", "unknown representation %s", rp.ID), inf
			}
			if !isSubs {
				trexRep = r0
			}
			if as.Tmpl.Timeline != nil {
				// ---- explicit SegmentTimeline ----
				byNumber := strings.Contains(as.Tmpl.Media, "$Number$")
				inf.listed += len(decls)
				// (4) last entry = newest segment that has ended (less ato)
				if hiN < 0 {
					if len(decls) != 0 {
						return hx.V("timeline-early-entry", "%s: %s lists %d segments although none has ended at now=%d", murl, kind, len(decls), c.NowMS), inf
					}
					continue
				}
				if len(decls) == 0 {
					if loN < 0 {
						continue
					}
					return hx.V("timeline-empty", "%s: %s lists nothing although segment n=%d has ended", murl, kind, loN), inf
				}
				// map the newest entry to a live index through its time
				scale := func(refTicks int64) int64 { return refTicks }
				if kind == "audio" && rep != nil {
					ar := rep
					scale = func(refTicks int64) int64 { return refmodel.AudioTime(refTicks, tl.TS(), ar) }
				}
				if isSubs {
					scale = func(refTicks int64) int64 { return (refTicks*1000*2 + tl.TS()) / (2 * tl.TS()) } // rounded ms
				}
				last := decls[len(decls)-1]
				okLast := false
				for cand := hiN; cand >= loN && cand >= 0; cand-- {
					if int64(last.T) == scale(tl.Start(cand)) {
						okLast, lastN = true, cand
						break
					}
				}
				if !okLast {
					return hx.V("timeline-last", "%s: %s newest entry t=%d; newest ended segment is n=%d with t=%d (now=%d)", murl, kind, last.T, lastN, scale(tl.Start(lastN)), c.NowMS), inf
				}
				firstN := lastN - int64(len(decls)-1)
				if firstN < 0 {
					return hx.V("timeline-before-start", "%s: %s lists %d segments but only %d exist since start", murl, kind, len(decls), lastN+1), inf
				}
				if firstN/tl.N() != lastN/tl.N() {
					inf.crossesWrap = true
				}
				// (5) first entry not older than the window allows (weak reading: its availability time is later than
				// window start minus one segment duration)
				winStart := c.NowMS - c.Cfg.TsbdS*1000
				if winStart < c.Cfg.StartS*1000 {
					winStart = c.Cfg.StartS * 1000
				}
				// livesim2 lists, by design, the last segment that ended (less ato) at or before the window start; a first entry
				// whose successor had ended before the window start as well is older than any reading allows.
				if firstN < lastN && tl.AvailU(firstN+1)+tl.TolU() <= winStart*tl.TS() {
					return hx.V("timeline-first-too-old", "%s: %s first entry n=%d, but already n=%d ended (less ato) at %d/%d ms, before the window start %d ms", murl, kind, firstN, firstN+1, tl.AvailU(firstN+1), tl.TS(), winStart), inf
				}
				if byNumber {
					if as.Tmpl.StartNumber == nil || int64(*as.Tmpl.StartNumber) != tl.Number(firstN) {
						sn := int64(-1)
						if as.Tmpl.StartNumber != nil {
							sn = int64(*as.Tmpl.StartNumber)
						}
						return hx.V("timeline-startnumber", "%s: %s startNumber=%d but the first listed segment (t=%d) has number %d", murl, kind, sn, decls[0].T, tl.Number(firstN)), inf
					}
				}
				for _, di := range pick(len(decls), 10) {
					d := decls[di]
					nn := firstN + int64(di)
					if int64(d.T) != scale(tl.Start(nn)) || int64(d.T+d.D) != scale(tl.End(nn)) {
						return hx.V("timeline-entry", "%s: %s entry %d (t=%d,d=%d), model n=%d (t=%d,d=%d)", murl, kind, di, d.T, d.D, nn, scale(tl.Start(nn)), scale(tl.End(nn))-scale(tl.Start(nn))), inf
					}
					name := as.Tmpl.MediaURL(rp.ID, d.Nr, d.T)
					r, u := get(name)
					inf.fetched++
					if r.Code != 200 {
						kind := "declared-not-served"
						if r.Code == 425 && di == len(decls)-1 && ambiguous && strings.Contains(string(r.Body), "too early by 0ms") {
							// defect model of KF-C02-float-boundary: the MPD (integer arithmetic) lists the segment at the very
							// millisecond of a fractional availability instant, the segment path (float64 seconds) is 1 ms late
							kind = "KF-C02-float-boundary"
						}
						return hx.V(kind, "%s declares %s (entry %d of %d, n=%d) but %s -> %v", murl, name, di, len(decls), nn, u, r), inf
					}
					if v := checkSeg(r, u, trexRep, isSubs, int64(d.T), int64(d.D), nn, tl, byNumber); v != nil {
						return v, inf
					}
				}
				// (2) the segment just after the live edge is refused as too early
				nx := as.Tmpl.MediaURL(rp.ID, last.Nr+1, last.T+last.D)
				r, u := get(nx)
				inf.fetched++
				if r.Code != 425 && !(ambiguous && r.Code == 200) {
					return hx.V("after-edge-not-425", "%s: newest listed is n=%d, but %s -> %v (expected 425)", murl, lastN, u, r), inf
				}
				continue
			}
			// ---- SegmentTemplate with duration and $Number$ ----
			if as.Tmpl.Duration == nil {
				return hx.V("mpd-template", "%s: %s template has neither timeline nor duration", murl, kind), inf
			}
			d := int64(*as.Tmpl.Duration)
			mts := int64(as.Tmpl.TS())
			sn := int64(1)
			if as.Tmpl.StartNumber != nil {
				sn = int64(*as.Tmpl.StartNumber)
			}
			atoMS := int64(0)
			switch {
			case as.Tmpl.ATO == "INF":
				atoMS = -1
			case as.Tmpl.ATO != "":
				var f float64
				fmt.Sscanf(as.Tmpl.ATO, "%g", &f)
				atoMS = int64(f*1000 + 0.5)
			}
			if atoMS != c.Cfg.AtoMS {
				return hx.V("mpd-ato", "%s: %s availabilityTimeOffset=%q, configured %d ms", murl, kind, as.Tmpl.ATO, c.Cfg.AtoMS), inf
			}
			// A SegmentTemplate@duration that does not tile the loop exactly (average duration not representable in the
			// template's timescale, or a VoD template duration that is not the video segment duration) makes the implicit
			// timing drift without bound; the statement claims agreement only for constant durations / within the asset's
			// variation, so such adaptation sets are counted and skipped.
			if d*tl.N()*1000 != int64(e.Asset.LoopMS)*mts {
				inf.kinds["number-template-inexact-skipped"] = true
				continue
			}
			// variation of the asset's segment durations (in ms) relaxes the implicit declaration
			varMS := int64(0)
			for i := range tl.Rep.Segs {
				// deviation of real start/end from the nominal grid i*L/N, in ms rounded up
				for _, pair := range [][2]int64{{int64(i) * tl.LoopTicks(), int64(tl.Rep.Segs[i].Start) * tl.N()}, {int64(i+1) * tl.LoopTicks(), int64(tl.Rep.Segs[i].End) * tl.N()}} {
					devTicksN := abs(pair[0] - pair[1]) // deviation * N in ticks
					devMS := (devTicksN*1000 + tl.N()*tl.TS() - 1) / (tl.N() * tl.TS())
					if devMS > varMS {
						varMS = devMS
					}
				}
			}
			if varMS > 0 {
				varMS++ // ms rounding of the comparison itself
			}
			if kind == "audio" && rep != nil {
				varMS += int64(rep.SampleDur)*1000/int64(rep.Timescale) + 1 // audio follows video boundaries rounded up to a frame
			}
			if isSubs {
				varMS += 1 // ms rounding
			}
			// implicit declaration: segment k (number sn+k) covers [k*d,(k+1)*d)/mts and is available
			// from AST + (k+1)*d/mts - ato until that instant (without ato) + tsbd.
			rel := c.NowMS - c.Cfg.StartS*1000 // ms since AST
			// newest k with (k+1)*d*1000 <= (rel + ato)*mts
			edge := int64(-1)
			if atoMS >= 0 {
				edge = (rel+atoMS)*mts/(d*1000) - 1
			}
			// the declaration window is read conservatively: from end-ato until end-ato+tsbd (with ato>0 the DASH formula
			// end+tsbd would extend it; the server shifts the whole window by ato)
			atoPos := atoMS
			if atoPos < 0 {
				atoPos = 0
			}
			oldest := int64(0)
			if o := ((rel-c.Cfg.TsbdS*1000+atoPos)*mts+d*1000-1)/(d*1000) - 1; o > 0 {
				oldest = o // first k with (k+1)*d/mts - ato + tsbd >= rel
			}
			if atoMS < 0 {
				// everything from the start is declared available; sample the first few and those around "now"
				edge = rel*mts/(d*1000) + 3
			}
			var ks []int64
			for _, i := range pick(int(edge-oldest+1), 8) {
				ks = append(ks, oldest+int64(i))
			}
			if edge >= oldest {
				inf.listed += int(edge - oldest + 1)
			}
			for _, k := range ks {
				if k < 0 || sn+k >= 1<<32-1 {
					continue
				}
				// skip declarations closer to an edge than the asset's duration variation
				endMS := (k + 1) * d * 1000 / mts
				if atoMS >= 0 && rel < endMS-atoMS+varMS {
					continue
				}
				if atoMS >= 0 && rel+atoMS-endMS == 0 && !(atoMS%1000 == 0 && endMS%1000 == 0) {
					continue // the instant equals a breakpoint that is not a whole second: either answer (float64 seconds in the code)
				}
				if rel > endMS-atoPos+c.Cfg.TsbdS*1000-varMS {
					continue
				}
				name := as.Tmpl.MediaURL(rp.ID, uint64(sn+k), 0)
				r, u := get(name)
				inf.fetched++
				if r.Code != 200 {
					return hx.V("declared-not-served", "%s declares number %d (k=%d; template duration %d/%d, startNumber %d, ato %d ms) but %s -> %v", murl, sn+k, k, d, mts, sn, atoMS, u, r), inf
				}
				if kind == "image" {
					continue
				}
				exact := varMS == 0
				if v := checkNumberSeg(r, u, trexRep, isSubs, k, d, sn+k, exact, varMS, mts); v != nil {
					return v, inf
				}
			}
			if atoMS >= 0 && sn+edge+1 < 1<<32-1 {
				// number after the live edge: refused, unless it lies within the duration variation of the edge
				nextEndMS := (edge + 2) * d * 1000 / mts
				if nextEndMS-(rel+atoMS) > varMS {
					name := as.Tmpl.MediaURL(rp.ID, uint64(sn+edge+1), 0)
					r, u := get(name)
					inf.fetched++
					if r.Code != 425 {
						return hx.V("after-edge-not-425", "%s: live edge k=%d (number %d); %s -> %v (expected 425)", murl, edge, sn+edge, u, r), inf
					}
				}
			}
		}
	}
	// the same configuration in chunked low-latency mode (chunkdur_): a thumbnail the MPD lists is still a plain image,
	// served at once and byte-identical (media segments in that mode are C09's)
	segMS := int64(e.Asset.LoopMS) / int64(len(e.Asset.Ref.Segs))
	if c.Cfg.AtoMS > 0 && c.Cfg.AtoMS < segMS && segMS >= 1000 && (c.Target.Layout == nil || c.Target.Layout.Audio == "") {
		for _, id := range e.Asset.RepsOfType(c.MPD, "image") {
			irep := e.Asset.Reps[id]
			itl := refmodel.NewTimeline(e.Asset, irep, c.Cfg)
			n, _ := itl.LastAvailable(c.NowMS)
			if n < 0 || itl.Number(n) >= 1<<32-16 {
				continue
			}
			name := itl.SegName(irep, n)
			plain := e.Srv.Get(ls.URL(parts, e.Asset.Path, name, c.NowMS))
			if plain.Code != 200 {
				continue // outside the window etc.: judged above
			}
			cu := ls.URL(append(append([]string{}, parts...), "chunkdur_"+refmodel.FormatMS(segMS/4)), e.Asset.Path, name, c.NowMS)
			cr := e.Srv.Get(cu)
			inf.fetched++
			if cr.Code != 200 || !bytes.Equal(cr.Body, plain.Body) {
				return hx.V("thumbnail-in-chunked-mode", "%s -> %d (%d bytes); without chunkdur_ the same thumbnail is served with 200 (%d bytes)", cu, cr.Code, len(cr.Body), len(plain.Body)), inf
			}
			inf.kinds["image-chunked-mode"] = true
		}
	}
	return nil, inf
}

func abs(x int64) int64 {
	if x < 0 {
		return -x
	}
	return x
}

func checkSeg(r ls.Resp, u string, rep *vod.Rep, isSubs bool, t, d, n int64, tl *refmodel.Timeline, byNumber bool) *hx.Violation {
	if rep != nil && rep.ContentType == "image" {
		return nil
	}
	var seg *mp4x.Seg
	var err error
	if isSubs || rep == nil {
		seg, err = mp4x.Parse(r.Body, nil)
	} else {
		seg, err = mp4x.Parse(r.Body, rep.Trex)
	}
	if err != nil {
		return hx.V("segment-unparsable", "%s: %v", u, err)
	}
	if int64(seg.Start()) != t || int64(seg.Dur()) != d {
		return hx.V("declared-time-differs", "%s: served (t=%d,d=%d), MPD declares (t=%d,d=%d)", u, seg.Start(), seg.Dur(), t, d)
	}
	if int64(seg.Frags[0].Seq) != tl.Number(n) {
		return hx.V("declared-number-differs", "%s: served sequence number %d, expected %d", u, seg.Frags[0].Seq, tl.Number(n))
	}
	return nil
}

func checkNumberSeg(r ls.Resp, u string, rep *vod.Rep, isSubs bool, k, d, nr int64, exact bool, varMS, mts int64) *hx.Violation {
	var seg *mp4x.Seg
	var err error
	if isSubs || rep == nil {
		seg, err = mp4x.Parse(r.Body, nil)
	} else {
		seg, err = mp4x.Parse(r.Body, rep.Trex)
	}
	if err != nil {
		return hx.V("segment-unparsable", "%s: %v", u, err)
	}
	if int64(seg.Frags[0].Seq) != nr {
		return hx.V("declared-number-differs", "%s: served sequence number %d, expected %d", u, seg.Frags[0].Seq, nr)
	}
	// media timescale of the served segment vs timescale of the template: compare as rationals
	mediaTS := int64(1000)
	if !isSubs && rep != nil {
		mediaTS = int64(rep.Timescale)
	}
	slack := varMS * mediaTS * mts / 1000 // in units 1/(mediaTS*mts) s
	if exact {
		slack = 0
	}
	if abs(int64(seg.Start())*mts-k*d*mediaTS) > slack || abs(int64(seg.Dur())*mts-d*mediaTS) > 2*slack {
		return hx.V("declared-time-differs", "%s: served (t=%d,d=%d)/%d, template implies (t=%d,d=%d)/%d (slack %d ms)", u, seg.Start(), seg.Dur(), mediaTS, k*d, d, mts, varMS)
	}
	return nil
}

func TestC02(t *testing.T) {
	run := hx.Start(t, "C02")
	defer run.Finish()
	if run.Replaying() {
		var c Case
		run.ReplayCase(&c)
		e, err := env.Get(c.Target)
		if err != nil {
			t.Fatalf("HARNESS: %v", err)
		}
		if v, _ := checkCase(c, e); v != nil {
			run.Fail(t, c, v)
		}
		return
	}
	run.Essential("type:number", "type:time", "type:tlnr", "kind:audio", "kind:video", "kind:text", "kind:image", "kind:timesubs", "crosses-wrap")
	run.Rapid(t, 1, 500, 3000, func(rt *rapid.T) {
		c, e := genCase(rt)
		v, inf := checkCase(c, e)
		cls := []string{"type:" + c.Cfg.Type, "n:" + c.Regime}
		for k := range inf.kinds {
			cls = append(cls, "kind:"+k)
		}
		if c.Target.Layout != nil {
			cls = append(cls, "asset:generated")
		} else {
			cls = append(cls, "asset:bundled")
		}
		if c.Cfg.StartS != 0 {
			cls = append(cls, "start!=0")
		}
		if c.Cfg.Snr != 0 {
			cls = append(cls, "snr!=0")
		}
		if c.Cfg.AtoMS != 0 {
			cls = append(cls, "ato!=0")
		}
		if inf.crossesWrap {
			cls = append(cls, "crosses-wrap")
		}
		if inf.listed >= 2 {
			cls = append(cls, "lists>=2")
			run.NonTrivial(c)
		}
		run.Eval(cls...)
		run.Note("segment_fetches", inf.fetched)
		run.Sample(map[string]any{"asset": c.Target.Name(), "mpd": c.MPD, "url_parts": c.Cfg.Parts(), "subs": c.Subs, "now_ms": c.NowMS, "listed": inf.listed, "fetched": inf.fetched})
		if v != nil {
			if v.Kind == "harness" {
				rt.Fatalf("HARNESS: %s", v.Msg)
			}
			run.Fail(rt, c, v)
		}
	})
}
