// C09 — low-latency chunked delivery is the same media, never delivered early.
package c09

import (
	"context"
	"fmt"
	"net/http"
	"net/http/httptest"
	"strings"
	"sync"
	"testing"
	"time"

	"github.com/Eyevinn/mp4ff/bits"
	"github.com/Eyevinn/mp4ff/mp4"
	"pgregory.net/rapid"
	"verifharness/internal/assetgen"
	"verifharness/internal/env"
	"verifharness/internal/gen"
	"verifharness/internal/hx"
	"verifharness/internal/ls"
	"verifharness/internal/mp4x"
	"verifharness/internal/refmodel"
)

type Case struct {
	Target   env.Target   `json:"target"`
	RepID    string       `json:"rep"`
	Cfg      refmodel.Cfg `json:"cfg"` // AtoMS is the advertised availabilityTimeOffset
	ChunkDur string       `json:"chunkdur"`
	DRM      string       `json:"drm,omitempty"`
	N        int64        `json:"n"`
	OffsetMS int64        `json:"offset_ms"` // request instant relative to the advertised availability time
	Paced    bool         `json:"paced"`
	// ProbeMS >= 0: an additional request this many ms after the advertised availability time, abandoned as soon as the first
	// bytes arrive: it must be admitted (200), not refused as too early. -1 = none.
	ProbeMS int64 `json:"probe_ms"`
	// ChunkdurFirst: chunkdur_ is written before ato_ in the URL (the order of options is free)
	ChunkdurFirst bool `json:"chunkdur_first,omitempty"`
}

// recWriter records when each chunk is flushed.
type recWriter struct {
	mu      sync.Mutex
	hdr     http.Header
	code    int
	buf     []byte
	start   time.Time
	flushes []flushRec
	onWrite func()
}

type flushRec struct {
	at  time.Duration // since the request started
	len int           // bytes written so far
}

func (w *recWriter) Header() http.Header { return w.hdr }
func (w *recWriter) WriteHeader(c int)   { w.code = c }
func (w *recWriter) Write(b []byte) (int, error) {
	w.mu.Lock()
	defer w.mu.Unlock()
	if w.code == 0 {
		w.code = 200
	}
	w.buf = append(w.buf, b...)
	if w.onWrite != nil {
		w.onWrite()
	}
	return len(b), nil
}
func (w *recWriter) Flush() {
	w.mu.Lock()
	defer w.mu.Unlock()
	w.flushes = append(w.flushes, flushRec{at: time.Since(w.start), len: len(w.buf)})
}

func genCase(t *rapid.T, paced bool) (Case, *env.Env) {
	var tg env.Target
	if paced {
		// sub-second constant-duration layouts keep a paced case below one second of wall time
		l := assetgen.Gen(t, assetgen.Opts{Audio: []string{""}, Uniform: true, MinFrames: 5, MaxFrames: 15, MaxSegs: 3, Forms: []string{"timeline"},
			Clocks: []assetgen.Clock{{1000, 40}, {25000, 1000}, {90000, 3600}, {12800, 512}}})
		l.VFrags = 1
		tg = env.Target{Layout: &l}
	} else {
		tg = gen.Target(t, assetgen.Opts{Audio: []string{""}, Uniform: true, MinFrames: 10, MaxFrames: 100,
			Clocks: []assetgen.Clock{{1000, 40}, {25000, 1000}, {90000, 3600}, {12800, 512}, {90000, 3000}}}, 60, []string{"testpic_2s", "testpic_6s", "testpic_8s"})
	}
	e, err := env.Get(tg)
	if err != nil {
		t.Fatalf("HARNESS: %v", err)
	}
	rep := gen.RepOfKinds(t, e.Asset, "video", "audio")
	segMS := int64(e.Asset.LoopMS) / int64(len(e.Asset.Ref.Segs))
	cfg := refmodel.DefaultCfg()
	cfg.Type = rapid.SampledFrom([]string{"number", "time", "tlnr"}).Draw(t, "type")
	cfg.StartS = rapid.SampledFrom([]int64{0, 0, 7, 1_700_000_000}).Draw(t, "start")
	cfg.Snr = rapid.SampledFrom([]int64{0, 1}).Draw(t, "snr")
	if segMS < 1000 {
		cfg.Extra = []string{"mup_1"}
	}
	// chunk duration = segment duration - ato: from one sample to a large part of the segment
	frameMS := int64(40)
	if rep.SampleDur > 0 {
		frameMS = int64(rep.SampleDur)*1000/int64(rep.Timescale) + 1
	}
	var chunkMS int64
	switch rapid.SampledFrom([]string{"one-sample", "small", "half", "third", "most"}).Draw(t, "chunk") {
	case "one-sample":
		chunkMS = frameMS
	case "small":
		chunkMS = segMS / 20
	case "half":
		chunkMS = segMS / 2
	case "third":
		chunkMS = segMS / 3
	default:
		chunkMS = segMS * 19 / 20
	}
	if chunkMS < frameMS {
		chunkMS = frameMS
	}
	if chunkMS >= segMS {
		chunkMS = segMS / 2
	}
	cfg.AtoMS = segMS - chunkMS
	c := Case{Target: tg, RepID: rep.ID, Cfg: cfg, Paced: paced, ChunkDur: refmodel.FormatMS(rapid.SampledFrom([]int64{chunkMS, 100, 500, 1000}).Draw(t, "chunkdur"))}
	if tg.Layout == nil || true {
		c.DRM = rapid.SampledFrom([]string{"", "", "eccp_cenc", "eccp_cbcs"}).Draw(t, "drm")
	}
	if e.Asset.Reps[c.RepID].ContentType == "audio" && !strings.HasPrefix(rep.Codecs, "mp4a") {
		c.DRM = ""
	}
	c.ChunkdurFirst = rapid.IntRange(0, 2).Draw(t, "chunkdur-first") == 0
	tl := refmodel.NewTimeline(e.Asset, rep, cfg)
	c.ProbeMS = -1
	if !paced && cfg.AtoMS > 1 {
		switch rapid.IntRange(0, 3).Draw(t, "probe") {
		case 0:
			c.ProbeMS = 0
		case 1:
			c.ProbeMS = 1
		default:
			c.ProbeMS = int64(rapid.IntRange(0, int(min64(cfg.AtoMS-1, 1500))).Draw(t, "probe-ms"))
		}
	}
	if paced {
		c.N = int64(rapid.IntRange(0, 40).Draw(t, "n"))
		c.OffsetMS = int64(rapid.IntRange(0, int(cfg.AtoMS)).Draw(t, "off"))
	} else {
		c.N, _ = gen.Index(t, tl, cfg.StartS)
		// The server schedules the trailing partial chunk on the nominal chunk grid (start + k*chunkDuration), i.e. later
		// than its own end; that lateness is outside the one-sided oracle (noted in DESIGN.md). Unpaced cases are therefore
		// requested after the end of that grid so that they never sleep.
		gridEnd := (segMS + chunkMS - 1) / chunkMS * chunkMS
		switch rapid.SampledFrom([]string{"after-end", "after-end", "too-early", "late"}).Draw(t, "when") {
		case "after-end":
			c.OffsetMS = cfg.AtoMS + (gridEnd - segMS) + 1 + int64(rapid.IntRange(0, 1000).Draw(t, "off"))
		case "too-early":
			c.OffsetMS = -2 - int64(rapid.IntRange(0, 500).Draw(t, "early"))
		default:
			c.OffsetMS = cfg.AtoMS + (gridEnd - segMS) + int64(rapid.IntRange(1000, 40000).Draw(t, "late"))
		}
	}
	return c, e
}

func min64(a, b int64) int64 {
	if a < b {
		return a
	}
	return b
}

type info struct {
	probed   bool
	chunks   int
	waited   int
	tooEarly bool
}

func checkCase(c Case, e *env.Env) (*hx.Violation, info) {
	var inf info
	rep := e.Asset.Reps[c.RepID]
	if rep == nil {
		return hx.V("harness", "rep"), inf
	}
	tl := refmodel.NewTimeline(e.Asset, rep, c.Cfg)
	ts := tl.TS()
	parts := append(c.Cfg.Parts(), "chunkdur_"+c.ChunkDur)
	if c.ChunkdurFirst {
		parts = append([]string{"chunkdur_" + c.ChunkDur}, c.Cfg.Parts()...)
	}
	wholeParts := c.Cfg.Parts()
	if c.DRM != "" {
		parts = append(parts, c.DRM)
		wholeParts = append(wholeParts, c.DRM)
	}
	availMS := gen.CeilDivU(tl.AvailU(c.N), ts) // advertised availability time (first whole ms)
	now := availMS + c.OffsetMS
	if now < c.Cfg.StartS*1000 {
		now = c.Cfg.StartS * 1000
	}
	name := tl.SegName(rep, c.N)
	url := ls.URL(parts, e.Asset.Path, name, now)
	if pnow := availMS + c.ProbeMS; c.ProbeMS >= 0 && pnow >= c.Cfg.StartS*1000 {
		// a request made at (or shortly after) the advertised availability time can be answered at once
		ctx, cancel := context.WithCancel(context.Background())
		pw := &recWriter{hdr: http.Header{}, start: time.Now(), onWrite: cancel}
		purl := ls.URL(parts, e.Asset.Path, name, pnow)
		e.Srv.S.Router.ServeHTTP(pw, httptest.NewRequest("GET", purl, nil).WithContext(ctx))
		cancel()
		inf.probed = true
		tolerated := pw.code == 425 && c.ProbeMS == 0 && !tl.ExactInstant(tl.AvailU(c.N)) && strings.Contains(string(pw.buf), "too early by 0ms")
		if pw.code != 200 && !tolerated {
			return hx.V("not-admitted-at-availability", "%s (%d ms after the advertised availability time %d ms) -> %d %.100q", purl, c.ProbeMS, availMS, pw.code, pw.buf), inf
		}
	}
	rw := &recWriter{hdr: http.Header{}, start: time.Now()}
	req := httptest.NewRequest("GET", url, nil)
	e.Srv.S.Router.ServeHTTP(rw, req)
	if now < availMS-1 {
		inf.tooEarly = true
		if rw.code != 425 {
			return hx.V("early-not-refused", "%s: %d ms before the advertised availability time -> %d", url, availMS-now, rw.code), inf
		}
		return nil, inf
	}
	if rw.code == 425 && now == availMS && !tl.ExactInstant(tl.AvailU(c.N)) && strings.Contains(string(rw.buf), "too early by 0ms") {
		// the very millisecond of an availability instant that is not a whole second: float64 seconds in the server may be
		// 1 ms late (same tolerance as in C04; the MPD side of it is known finding KF-C02-float-boundary)
		inf.tooEarly = true
		return nil, inf
	}
	if rw.code != 200 {
		return hx.V("status", "%s (offset %d ms after the advertised availability time) -> %d %.200q", url, c.OffsetMS, rw.code, rw.buf), inf
	}
	// whole-segment reference: same URL without chunkdur_, after the segment's end
	endMS := gen.CeilDivU(c.Cfg.StartS*1000*ts+tl.End(c.N)*1000, ts)
	wurl := ls.URL(wholeParts, e.Asset.Path, name, endMS+1)
	wr := e.Srv.Get(wurl)
	if wr.Code != 200 {
		return hx.V("harness", "whole-segment reference %s -> %v", wurl, wr), inf
	}
	// (1) same samples
	var chunkedSamples, wholeSamples []mp4x.Sample
	cseg, err := mp4x.Parse(rw.buf, rep.Trex)
	if err != nil {
		return hx.V("unparsable", "%s: %v", url, err), inf
	}
	wseg, err := mp4x.Parse(wr.Body, rep.Trex)
	if err != nil {
		return hx.V("harness", "%v", err), inf
	}
	chunkedSamples, wholeSamples = cseg.AllSamples(), wseg.AllSamples()
	if c.DRM != "" {
		// encrypted payloads: compare after decryption is C10's; here sizes, times, flags and count must agree and the
		// sample encryption must be per chunk (each fragment parses and decrypts on its own in C10)
		for i := range chunkedSamples {
			chunkedSamples[i].Data = nil
		}
		for i := range wholeSamples {
			wholeSamples[i].Data = nil
		}
		// every chunk is protected on its own: it carries the sample encryption box with one entry per sample of that chunk
		// (a chunk without it cannot be decrypted although its payload is ciphertext)
		for k, fr := range cseg.Frags {
			traf := fr.Raw.Moof.Traf
			if traf == nil || traf.Senc == nil {
				return hx.V("chunk-without-senc", "%s: chunk %d of %d has no sample encryption (senc) box although %s was requested", url, k+1, len(cseg.Frags), c.DRM), inf
			}
			if int(traf.Senc.SampleCount) != len(fr.Samples) {
				return hx.V("chunk-senc-count", "%s: chunk %d: senc lists %d samples, the chunk has %d", url, k+1, traf.Senc.SampleCount, len(fr.Samples)), inf
			}
		}
	}
	if err := mp4x.SameMedia(chunkedSamples, wholeSamples, true); err != nil {
		return hx.V("media-differs", "%s vs whole segment %s: %v", url, wurl, err), inf
	}
	// (2) styp on the first chunk only, chunks in order and contiguous, same number
	f, err := mp4.DecodeFileSR(bits.NewFixedSliceReader(rw.buf))
	if err != nil {
		return hx.V("unparsable", "%v", err), inf
	}
	if len(f.Segments) == 0 || f.Segments[0].Styp == nil {
		return hx.V("no-styp", "%s: the first chunk does not carry the segment type box", url), inf
	}
	for i, s := range f.Segments {
		if i > 0 && s.Styp != nil {
			return hx.V("styp-repeated", "%s: chunk group %d carries another styp", url, i), inf
		}
	}
	inf.chunks = len(cseg.Frags)
	maxChunk := (int64(e.Asset.LoopMS)/int64(len(e.Asset.Ref.Segs)) - c.Cfg.AtoMS) * int64(rep.Timescale) / 1000
	pos := cseg.Frags[0].Tfdt
	if pos != wseg.Start() {
		return hx.V("chunk-start", "%s: first chunk starts at %d, whole segment at %d", url, pos, wseg.Start()), inf
	}
	var ends []int64 // media end of each chunk in rep ticks
	for k, fr := range cseg.Frags {
		if int64(fr.Seq) != tl.Number(c.N) {
			return hx.V("chunk-number", "%s: chunk %d has sequence number %d, expected %d", url, k, fr.Seq, tl.Number(c.N)), inf
		}
		if fr.Tfdt != pos {
			return hx.V("chunks-not-contiguous", "%s: chunk %d starts at %d, previous ended at %d", url, k, fr.Tfdt, pos), inf
		}
		var d, maxS uint64
		for _, s := range fr.Samples {
			d += uint64(s.Dur)
			if uint64(s.Dur) > maxS {
				maxS = uint64(s.Dur)
			}
		}
		// (3) no chunk spans more media time than segment duration - ato, up to one sample
		if int64(d) > maxChunk+int64(maxS) {
			return hx.V("chunk-too-long", "%s: chunk %d spans %d ticks, segment duration - ato = %d ticks (+ one sample %d)", url, k, d, maxChunk, maxS), inf
		}
		pos += d
		ends = append(ends, int64(pos))
	}
	// (4) one-sided timing: chunk k is not flushed before its own end time has been reached on the wall clock
	if len(rw.flushes) != len(cseg.Frags) {
		return hx.V("flush-per-chunk", "%s: %d flushes for %d chunks", url, len(rw.flushes), len(cseg.Frags)), inf
	}
	rts := int64(rep.Timescale)
	for k, fl := range rw.flushes {
		chunkEndMS := c.Cfg.StartS*1000 + ends[k]*1000/rts // floor: earliest acceptable
		needMS := chunkEndMS - now
		if needMS > 0 {
			inf.waited++
			if fl.at < time.Duration(needMS-2)*time.Millisecond {
				return hx.V("chunk-early", "%s: chunk %d (media end %d ms after the request instant) was flushed after %v", url, k, needMS, fl.at), inf
			}
		}
	}
	return nil, inf
}

func TestC09(t *testing.T) {
	run := hx.Start(t, "C09")
	defer run.Finish()
	if run.Replaying() {
		var c Case
		run.ReplayCase(&c)
		e, err := env.Get(c.Target)
		if err != nil {
			t.Fatalf("HARNESS: %v", err)
		}
		if v, _ := checkCase(c, e); v != nil {
			run.Fail(t, c, v)
		}
		return
	}
	run.Essential("unpaced", "paced", "waited", "too-early", "kind:audio", "kind:video", "drm")
	eval := func(c Case, e *env.Env, v *hx.Violation, inf info, rt *rapid.T) {
		cls := []string{"kind:" + e.Asset.Reps[c.RepID].ContentType, "addr:" + c.Cfg.Type}
		if c.Paced {
			cls = append(cls, "paced")
		} else {
			cls = append(cls, "unpaced")
		}
		if inf.waited > 0 {
			cls = append(cls, "waited")
		}
		if inf.tooEarly {
			cls = append(cls, "too-early")
		}
		if inf.probed {
			cls = append(cls, "probed-at-availability")
		}
		if c.ChunkdurFirst {
			cls = append(cls, "chunkdur-before-ato")
		}
		if c.DRM != "" {
			cls = append(cls, "drm")
		}
		if inf.chunks >= 2 && (inf.waited >= 1 || !c.Paced) {
			run.NonTrivial(c)
		}
		run.Eval(cls...)
		run.Sample(map[string]any{"asset": c.Target.Name(), "rep": c.RepID, "url_parts": append(c.Cfg.Parts(), "chunkdur_"+c.ChunkDur, c.DRM), "n": c.N, "offset_ms": c.OffsetMS, "chunks": inf.chunks, "chunks_that_had_to_wait": inf.waited})
		if v != nil {
			if v.Kind == "harness" {
				rt.Fatalf("HARNESS: %s", v.Msg)
			}
			run.Fail(rt, c, v)
		}
	}
	var slowest time.Duration
	var slowCase Case
	run.Rapid(t, 1, 400, 4000, func(rt *rapid.T) {
		c, e := genCase(rt, false)
		t0 := time.Now()
		v, inf := checkCase(c, e)
		if d := time.Since(t0); d > slowest {
			slowest, slowCase = d, c
		}
		eval(c, e, v, inf, rt)
	})
	run.Note("slowest_unpaced_case_ms", slowest.Milliseconds())
	run.Note("slowest_unpaced_case", slowCase)
	run.Rapid(t, 2, 30, 300, func(rt *rapid.T) {
		c, e := genCase(rt, true)
		v, inf := checkCase(c, e)
		eval(c, e, v, inf, rt)
	})
	_ = fmt.Sprint
}
