// C13 — SCTE-35 events follow the per-minute schedule, each announced exactly once.
package c13

import (
	"fmt"
	"sort"
	"strconv"
	"testing"

	"github.com/Dash-Industry-Forum/livesim2/pkg/scte35"
	"github.com/Eyevinn/mp4ff/mp4"
	"pgregory.net/rapid"
	"verifharness/internal/assetgen"
	"verifharness/internal/env"
	"verifharness/internal/gen"
	"verifharness/internal/hx"
	"verifharness/internal/ls"
	"verifharness/internal/mp4x"
	"verifharness/internal/mpdx"
	"verifharness/internal/refmodel"
)

var offsets = map[int][]int64{1: {10}, 2: {10, 40}, 3: {10, 36, 46}}

func breakDurS(n int) int64 {
	if n == 1 {
		return 20
	}
	return 10
}

// ---- own splice_info_section parser (SCTE 35, splice_insert only) ------------------------------------

type bitr struct {
	b   []byte
	pos int
	err bool
}

func (r *bitr) u(n int) uint64 {
	var v uint64
	for i := 0; i < n; i++ {
		if r.pos/8 >= len(r.b) {
			r.err = true
			return 0
		}
		bit := (r.b[r.pos/8] >> (7 - uint(r.pos%8))) & 1
		v = v<<1 | uint64(bit)
		r.pos++
	}
	return v
}

type splice struct {
	eventID     uint32
	outOfNet    bool
	hasPTS      bool
	pts         uint64
	hasDur      bool
	dur         uint64
	autoReturn  bool
	tier        uint64
	cancel      bool
	immediate   bool
	programFlag bool
}

func crc32mpeg(b []byte) uint32 {
	crc := uint32(0xFFFFFFFF)
	for _, x := range b {
		crc ^= uint32(x) << 24
		for i := 0; i < 8; i++ {
			if crc&0x80000000 != 0 {
				crc = crc<<1 ^ 0x04C11DB7
			} else {
				crc <<= 1
			}
		}
	}
	return crc
}

func parseSplice(b []byte) (splice, error) {
	var s splice
	r := &bitr{b: b}
	if r.u(8) != 0xFC {
		return s, fmt.Errorf("table_id is not 0xFC")
	}
	r.u(1)
	r.u(1)
	r.u(2)
	secLen := int(r.u(12))
	if secLen+3 != len(b) {
		return s, fmt.Errorf("section_length %d does not match %d bytes", secLen, len(b))
	}
	if crc32mpeg(b) != 0 {
		return s, fmt.Errorf("CRC-32 of the section is not valid")
	}
	if r.u(8) != 0 {
		return s, fmt.Errorf("protocol_version != 0")
	}
	r.u(1)
	r.u(6)
	r.u(33)
	r.u(8)
	s.tier = r.u(12)
	r.u(12)
	if t := r.u(8); t != 5 {
		return s, fmt.Errorf("splice_command_type %d is not splice_insert", t)
	}
	s.eventID = uint32(r.u(32))
	s.cancel = r.u(1) == 1
	r.u(7)
	if !s.cancel {
		s.outOfNet = r.u(1) == 1
		s.programFlag = r.u(1) == 1
		s.hasDur = r.u(1) == 1
		s.immediate = r.u(1) == 1
		r.u(4)
		if s.programFlag && !s.immediate {
			if r.u(1) == 1 {
				r.u(6)
				s.hasPTS = true
				s.pts = r.u(33)
			} else {
				r.u(7)
			}
		}
		if !s.programFlag {
			return s, fmt.Errorf("component splice not expected")
		}
		if s.hasDur {
			s.autoReturn = r.u(1) == 1
			r.u(6)
			s.dur = r.u(33)
		}
		r.u(16)
		r.u(8)
		r.u(8)
	}
	if r.err {
		return s, fmt.Errorf("section truncated")
	}
	return s, nil
}

// checkEvent verifies the mutual consistency of one emsg. spliceTicks is the splice instant in the emsg timescale.
func checkEvent(e *mp4.EmsgBox, n int, ts uint64) (spliceS int64, v *hx.Violation) {
	if e.SchemeIDURI != "urn:scte:scte35:2013:bin" {
		return 0, hx.V("emsg-scheme", "scheme %q", e.SchemeIDURI)
	}
	if uint64(e.TimeScale) != ts {
		return 0, hx.V("emsg-timescale", "emsg timescale %d, media timescale %d", e.TimeScale, ts)
	}
	if e.PresentationTime%ts != 0 {
		return 0, hx.V("emsg-time", "presentation time %d is not a whole second in timescale %d", e.PresentationTime, ts)
	}
	spliceS = int64(e.PresentationTime / ts)
	if uint64(e.ID) != uint64(spliceS) {
		return spliceS, hx.V("emsg-id", "emsg id %d, splice at %d s", e.ID, spliceS)
	}
	if uint64(e.EventDuration) != uint64(breakDurS(n))*ts {
		return spliceS, hx.V("emsg-duration", "event duration %d/%d, expected %d s", e.EventDuration, ts, breakDurS(n))
	}
	s, err := parseSplice(e.MessageData)
	if err != nil {
		return spliceS, hx.V("splice-section", "splice_info_section: %v", err)
	}
	wantPTS := uint64(spliceS) * 90000 % (1 << 33)
	if !s.hasPTS || s.pts != wantPTS {
		return spliceS, hx.V("splice-pts", "pts_time %d (present=%v), expected %d = %d s * 90000 mod 2^33", s.pts, s.hasPTS, wantPTS, spliceS)
	}
	if !s.hasDur || s.dur != uint64(breakDurS(n))*90000 {
		return spliceS, hx.V("splice-duration", "break duration %d, expected %d", s.dur, breakDurS(n)*90000)
	}
	if !s.outOfNet || s.cancel || s.immediate {
		return spliceS, hx.V("splice-flags", "out_of_network=%v cancel=%v immediate=%v", s.outOfNet, s.cancel, s.immediate)
	}
	if uint64(s.eventID) != uint64(spliceS) {
		return spliceS, hx.V("splice-event-id", "splice_event_id %d, splice at %d s", s.eventID, spliceS)
	}
	return spliceS, nil
}

// ---- library level: contiguous segment grids ----------------------------------------------------------

type GridCase struct {
	Timescale uint64   `json:"timescale"`
	DurTicks  []uint64 `json:"dur_ticks"` // segment durations, cycled
	Phase     uint64   `json:"phase"`     // offset of the grid relative to the minute start (ticks)
	Minute    int64    `json:"minute"`    // first minute covered
	Minutes   int      `json:"minutes"`
	N         int      `json:"n"`
}

type durSpec struct {
	num, den uint64 // seconds = num/den
}

var durs = []durSpec{{1, 1}, {2, 1}, {3, 1}, {4, 1}, {5, 1}, {6, 1}, {7, 1}, {8, 1}, {10, 1}, {3, 2}, {1001, 500}, {48, 25}, {96, 25}, {1, 2}, {4004, 1000}, {8, 3}}

func genGrid(t *rapid.T) GridCase {
	c := GridCase{Timescale: rapid.SampledFrom([]uint64{1000, 90000, 30000, 12800, 48000, 24000}).Draw(t, "ts"), N: rapid.IntRange(1, 3).Draw(t, "n")}
	k := rapid.SampledFrom([]int{1, 1, 2}).Draw(t, "ndur")
	for len(c.DurTicks) < k {
		d := rapid.SampledFrom(durs).Draw(t, "dur")
		if c.Timescale*d.num%d.den != 0 {
			continue
		}
		c.DurTicks = append(c.DurTicks, c.Timescale*d.num/d.den)
	}
	switch rapid.SampledFrom([]string{"aligned", "aligned", "announce-on-boundary", "random"}).Draw(t, "phase") {
	case "aligned":
		c.Phase = 0
	case "announce-on-boundary":
		// a boundary exactly 3 s into the minute (announce instant of the first event)
		c.Phase = 3 * c.Timescale % c.DurTicks[0]
	default:
		c.Phase = uint64(rapid.IntRange(0, int(c.DurTicks[0])-1).Draw(t, "ph"))
	}
	c.Minute = rapid.SampledFrom([]int64{0, 1, 59, 60, 1000, 1589, 1590, 1591, 100000, 29_000_000}).Draw(t, "minute") + int64(rapid.IntRange(0, 3).Draw(t, "dm"))
	c.Minutes = rapid.IntRange(2, 4).Draw(t, "minutes")
	return c
}

type ginfo struct {
	spansMinute, announceOnBoundary bool
	events                          int
}

func checkGrid(c GridCase) (*hx.Violation, ginfo) {
	var inf ginfo
	ts := c.Timescale
	// the grid: boundaries at minute*60*ts - (something) + phase ... walk from before the first minute to after the last
	start := uint64(c.Minute)*60*ts + c.Phase
	for start > uint64(c.Minute)*60*ts-0 && start >= c.DurTicks[0] && start > uint64(c.Minute)*60*ts {
		start -= c.DurTicks[0]
	}
	if start > uint64(c.Minute)*60*ts { // minute 0 with a phase: begin the grid at 0 with a shorter first segment is not a grid; shift phase to 0
		start = uint64(c.Minute) * 60 * ts
	}
	endAll := uint64(c.Minute+int64(c.Minutes))*60*ts + 60*ts // one extra minute so that late carriers are seen
	carriers := map[int64][]string{}
	i := 0
	for t := start; t < endAll; i++ {
		d := c.DurTicks[i%len(c.DurTicks)]
		e := t + d
		if t/(60*ts) != (e-1)/(60*ts) {
			inf.spansMinute = true
		}
		emsg, err := scte35.CreateEmsgAhead(t, e, ts, c.N)
		if err != nil {
			return hx.V("create-error", "CreateEmsgAhead(%d,%d,%d,%d): %v", t, e, ts, c.N, err), inf
		}
		if emsg != nil {
			sp, v := checkEvent(emsg, c.N, ts)
			if v != nil {
				v.Msg = fmt.Sprintf("segment [%d,%d)/%d: %s", t, e, ts, v.Msg)
				return v, inf
			}
			ann := uint64(sp-7) * ts
			if ann < t || ann > e {
				return hx.V("wrong-carrier", "segment [%d,%d]/%d carries the event for splice %d s although it does not contain the announce instant %d s", t, e, ts, sp, sp-7), inf
			}
			if ann == t || ann == e {
				inf.announceOnBoundary = true
			}
			carriers[sp] = append(carriers[sp], fmt.Sprintf("[%d,%d)", t, e))
		}
		t = e
	}
	// every scheduled splice of the covered minutes: exactly one carrier
	want := map[int64]bool{}
	for m := c.Minute; m < c.Minute+int64(c.Minutes); m++ {
		for _, off := range offsets[c.N] {
			sp := m*60 + off
			if uint64(sp-7)*ts <= start { // announce instant before the grid starts (or on its very first boundary)
				continue
			}
			want[sp] = true
			if len(carriers[sp]) != 1 {
				return hx.V("not-exactly-one-carrier", "splice at %d s (minute %d + %d s, announce %d s) is carried by %d segments %v; grid: durations %v/%d phase %d", sp, m, off, sp-7, len(carriers[sp]), carriers[sp], c.DurTicks, ts, c.Phase), inf
			}
			inf.events++
		}
	}
	for sp := range carriers {
		m := sp / 60
		ok := false
		for _, off := range offsets[c.N] {
			if sp == m*60+off {
				ok = true
			}
		}
		if !ok {
			return hx.V("unscheduled-event", "event for splice at %d s is not on the schedule of N=%d", sp, c.N), inf
		}
	}
	return nil, inf
}

func TestC13Library(t *testing.T) {
	run := hx.Start(t, "C13")
	defer run.Finish()
	if run.Replaying() {
		if run.ReplayTest() != t.Name() {
			return
		}
		var c GridCase
		run.ReplayCase(&c)
		if v, _ := checkGrid(c); v != nil {
			run.Fail(t, c, v)
		}
		return
	}
	run.Essential("lib:segment-spans-minute-start", "lib:announce-on-boundary", "lib:pts-wrap")
	run.Rapid(t, 1, 3000, 30000, func(rt *rapid.T) {
		c := genGrid(rt)
		v, inf := checkGrid(c)
		cls := []string{"lib", "lib:N=" + strconv.Itoa(c.N)}
		if inf.spansMinute {
			cls = append(cls, "lib:segment-spans-minute-start")
		}
		if inf.announceOnBoundary {
			cls = append(cls, "lib:announce-on-boundary")
		}
		if c.Minute >= 1588 && c.Minute <= 1594 {
			cls = append(cls, "lib:pts-wrap")
		}
		if inf.spansMinute || inf.announceOnBoundary {
			run.NonTrivial(c)
		}
		run.Eval(cls...)
		run.Sample(map[string]any{"kind": "grid", "timescale": c.Timescale, "dur_ticks": c.DurTicks, "phase": c.Phase, "minute": c.Minute, "minutes": c.Minutes, "N": c.N, "events": inf.events})
		if v != nil {
			run.Fail(rt, c, v)
		}
	})
}

// ---- HTTP level ------------------------------------------------------------------------------------------

type HCase struct {
	Target env.Target   `json:"target"`
	Cfg    refmodel.Cfg `json:"cfg"`
	N      int          `json:"n"`      // scte35_N
	Minute int64        `json:"minute"` // first wall-clock minute (since AST) covered
	AnnexI bool         `json:"annexI,omitempty"`
	// Chunked: low-latency delivery (ato = 3/4, chunkdur = 1/4 of the segment); the segments are requested after their end
	Chunked bool `json:"chunked,omitempty"`
	// Periods: multi-period presentation (periods_60): every Period announces the event stream
	Periods bool `json:"periods,omitempty"`
}

// mkURL is ls.URL plus, for Annex I cases, the query parameters the annexI_ option announces (the server checks them)
func mkURL(annexI bool, parts []string, asset, file string, now int64) string {
	u := ls.URL(parts, asset, file, now)
	if annexI {
		u += "&a=1&b=2"
	}
	return u
}

func genH(t *rapid.T) (HCase, *env.Env) {
	tg := gen.Target(t, assetgen.Opts{Audio: []string{"", "aac"}, MinFrames: 25, MaxFrames: 235, AllowText: true}, 50, []string{"testpic_2s", "testpic_6s", "testpic_8s", "testpic_alt_seg_dur_stl", "bbb_hevc_ac3_8s", "WAVE/vectors/cfhd_sets/14.985_29.97_59.94/t1/2022-10-17"})
	e, err := env.Get(tg)
	if err != nil {
		t.Fatalf("HARNESS: %v", err)
	}
	cfg := refmodel.DefaultCfg()
	cfg.Type = rapid.SampledFrom([]string{"number", "time", "tlnr"}).Draw(t, "type")
	cfg.StartS = rapid.SampledFrom([]int64{0, 0, 60, 3600, 1_700_000_040}).Draw(t, "start")
	cfg.Snr = rapid.SampledFrom([]int64{0, 1}).Draw(t, "snr")
	if tg.Layout != nil && tg.Layout.AvgSegMS() < 1000 {
		cfg.Extra = []string{"mup_1"}
	}
	c := HCase{Target: tg, Cfg: cfg, N: rapid.SampledFrom([]int{1, 2, 3, 1, 2, 3, 0, 4, 7}).Draw(t, "N"), AnnexI: rapid.IntRange(0, 3).Draw(t, "annexI") == 0}
	c.Minute = rapid.SampledFrom([]int64{0, 1, 7, 1589, 1590, 100000}).Draw(t, "minute")
	if a := tg.Asset; a == "testpic_2s" || a == "testpic_6s" || a == "testpic_8s" {
		c.Chunked = rapid.IntRange(0, 2).Draw(t, "chunked") == 0
	}
	if a := tg.Asset; a == "testpic_2s" || a == "testpic_6s" {
		c.Periods = rapid.IntRange(0, 2).Draw(t, "periods") == 0
	}
	return c, e
}

type hinfo struct {
	events      int
	spansMinute bool
	rejected    bool
}

func checkH(c HCase, e *env.Env) (*hx.Violation, hinfo) {
	var inf hinfo
	parts := append(c.Cfg.Parts(), "scte35_"+strconv.Itoa(c.N))
	if c.AnnexI {
		parts = append(parts, "annexI_a=1,b=2") // another feature that decorates the video adaptation set
	}
	if c.Chunked {
		segMS := int64(e.Asset.LoopMS) / int64(len(e.Asset.Ref.Segs))
		parts = append(parts, "ato_"+refmodel.FormatMS(segMS*3/4), "chunkdur_"+refmodel.FormatMS(segMS/4))
	}
	if c.Periods {
		parts = append(parts, "periods_60")
	}
	vrep := e.Asset.Ref
	if vrep.ContentType != "video" {
		return hx.V("harness", "no video"), inf
	}
	tl := refmodel.NewTimeline(e.Asset, vrep, c.Cfg)
	ts := tl.TS()
	mpdName := "Manifest.mpd"
	if _, ok := e.Asset.MPDs[mpdName]; !ok {
		for n := range e.Asset.MPDs {
			mpdName = n
		}
		var names []string
		for n := range e.Asset.MPDs {
			names = append(names, n)
		}
		sort.Strings(names)
		mpdName = names[0]
	}
	now0 := c.Cfg.StartS*1000 + (c.Minute+1)*60_000
	mr := e.Srv.Get(mkURL(c.AnnexI, parts, e.Asset.Path, mpdName, now0))
	if c.N < 1 || c.N > 3 {
		inf.rejected = true
		if mr.Code < 400 || mr.Code >= 500 {
			return hx.V("invalid-N-not-rejected", "scte35_%d: MPD -> %v, expected a 4xx", c.N, mr), inf
		}
		sr := e.Srv.Get(mkURL(c.AnnexI, parts, e.Asset.Path, tl.SegName(vrep, 0), c.Cfg.StartS*1000+600_000))
		if sr.Code < 400 || sr.Code >= 500 {
			return hx.V("invalid-N-not-rejected", "scte35_%d: segment -> %v, expected a 4xx", c.N, sr), inf
		}
		return nil, inf
	}
	if mr.Code != 200 {
		return hx.V("mpd-status", "MPD -> %v", mr), inf
	}
	m, err := mpdx.Parse(mr.Body)
	if err != nil {
		return hx.V("mpd-unparsable", "%v", err), inf
	}
	for _, per := range m.Periods {
		for _, as := range per.AS {
			has := false
			for _, d := range as.InbandEventStreams {
				if d.SchemeIdUri == "urn:scte:scte35:2013:bin" {
					has = true
				}
			}
			if has != (as.Kind() == "video") {
				return hx.V("inband-event-stream", "period %s, %s adaptation set: InbandEventStream for SCTE-35 present=%v", per.ID, as.Kind(), has), inf
			}
		}
	}
	// all video segments covering minutes [Minute, Minute+3) counted from AST (media time)
	loT, hiT := c.Minute*60*ts, (c.Minute+3)*60*ts+60*ts
	n := int64(0)
	if loT > 0 {
		// first segment that ends after loT
		w := loT / tl.LoopTicks()
		n = w * tl.N()
		for tl.End(n) <= loT {
			n++
		}
	}
	if tl.Number(n) > 1<<32-100000 {
		return nil, inf
	}
	firstStart := tl.Start(n)
	carriers := map[int64]int{}
	for ; tl.Start(n) < hiT; n++ {
		if tl.Start(n)/(60*ts) != (tl.End(n)-1)/(60*ts) {
			inf.spansMinute = true
		}
		now := gen.CeilDivU(tl.AvailU(n), ts) + 1
		r := e.Srv.Get(mkURL(c.AnnexI, parts, e.Asset.Path, tl.SegName(vrep, n), now))
		if r.Code != 200 {
			return hx.V("segment-status", "%s n=%d -> %v", tl.SegName(vrep, n), n, r), inf
		}
		seg, err := mp4x.Parse(r.Body, vrep.Trex)
		if err != nil {
			return hx.V("segment-unparsable", "%v", err), inf
		}
		nEmsg := 0
		for _, fr := range seg.Frags {
			for _, em := range fr.Emsgs {
				nEmsg++
				sp, v := checkEvent(em, c.N, uint64(ts))
				if v != nil {
					v.Msg = fmt.Sprintf("segment n=%d [%d,%d)/%d: %s", n, tl.Start(n), tl.End(n), ts, v.Msg)
					return v, inf
				}
				ann := (sp - 7) * ts
				if ann < tl.Start(n) || ann > tl.End(n) {
					return hx.V("wrong-carrier", "segment n=%d [%d,%d]/%d carries splice %d s, announce instant %d s is outside", n, tl.Start(n), tl.End(n), ts, sp, sp-7), inf
				}
				carriers[sp]++
			}
		}
		if nEmsg > 1 {
			return hx.V("several-events-in-segment", "segment n=%d carries %d emsg boxes", n, nEmsg), inf
		}
	}
	for mm := c.Minute; mm < c.Minute+3; mm++ {
		for _, off := range offsets[c.N] {
			sp := mm*60 + off
			if (sp-7)*ts <= firstStart {
				continue
			}
			if carriers[sp] != 1 {
				return hx.V("not-exactly-one-carrier", "splice at %d s (minute %d + %d) is carried by %d video segments (asset %s)", sp, mm, off, carriers[sp], e.Asset.Path), inf
			}
			inf.events++
		}
	}
	// no other representation carries events: audio and subtitle segments over one minute (one representation per kind and codec)
	seenKind := map[string]bool{}
	for _, id := range e.Asset.RepIDs() {
		ar := e.Asset.Reps[id]
		if (ar.ContentType != "audio" && ar.ContentType != "text") || seenKind[ar.ContentType+ar.Codecs] {
			continue
		}
		seenKind[ar.ContentType+ar.Codecs] = true
		atl := refmodel.NewTimeline(e.Asset, ar, c.Cfg)
		ats := atl.TS() // a subtitle track has a timescale of its own
		loA := loT * ats / ts
		w := loA / atl.LoopTicks()
		for k := w * atl.N(); atl.Start(k) < loA+60*ats && k < w*atl.N()+40; k++ {
			now := gen.CeilDivU(atl.AvailU(k), ats) + 1
			r := e.Srv.Get(mkURL(c.AnnexI, parts, e.Asset.Path, atl.SegName(ar, k), now))
			if r.Code != 200 {
				return hx.V("segment-status", "%s %s -> %v", ar.ContentType, atl.SegName(ar, k), r), inf
			}
			seg, err := mp4x.Parse(r.Body, ar.Trex)
			if err != nil {
				return hx.V("segment-unparsable", "%v", err), inf
			}
			for _, fr := range seg.Frags {
				if len(fr.Emsgs) > 0 {
					return hx.V("event-in-"+ar.ContentType, "%s segment %s carries an emsg", ar.ContentType, atl.SegName(ar, k)), inf
				}
			}
		}
	}
	return nil, inf
}

func TestC13HTTP(t *testing.T) {
	run := hx.Start(t, "C13")
	defer run.Finish()
	if run.Replaying() {
		if run.ReplayTest() != t.Name() {
			return
		}
		var c HCase
		run.ReplayCase(&c)
		e, err := env.Get(c.Target)
		if err != nil {
			t.Fatalf("HARNESS: %v", err)
		}
		if v, _ := checkH(c, e); v != nil {
			run.Fail(t, c, v)
		}
		return
	}
	run.Essential("http:rejected-N", "http:segment-spans-minute-start")
	run.Rapid(t, 2, 80, 600, func(rt *rapid.T) {
		c, e := genH(rt)
		v, inf := checkH(c, e)
		cls := []string{"http", "http:N=" + strconv.Itoa(c.N)}
		if inf.rejected {
			cls = append(cls, "http:rejected-N")
		}
		if c.Chunked {
			cls = append(cls, "http:chunked-delivery")
		}
		if c.Periods {
			cls = append(cls, "http:multi-period")
		}
		if inf.spansMinute {
			cls = append(cls, "http:segment-spans-minute-start")
			run.NonTrivial(c)
		}
		run.Eval(cls...)
		run.Sample(map[string]any{"kind": "http", "asset": c.Target.Name(), "url_parts": append(c.Cfg.Parts(), "scte35_"+strconv.Itoa(c.N)), "minute": c.Minute, "events": inf.events})
		if v != nil {
			if v.Kind == "harness" {
				rt.Fatalf("HARNESS: %s", v.Msg)
			}
			run.Fail(rt, c, v)
		}
	})
}
