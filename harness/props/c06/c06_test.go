// C06 — splitting into periods preserves the timeline and the segment identities.
package c06

import (
	"bytes"
	"fmt"
	"sort"
	"strconv"
	"strings"
	"testing"

	"pgregory.net/rapid"
	"verifharness/internal/assetgen"
	"verifharness/internal/env"
	"verifharness/internal/gen"
	"verifharness/internal/hx"
	"verifharness/internal/ls"
	"verifharness/internal/mp4x"
	"verifharness/internal/mpdx"
	"verifharness/internal/refmodel"
)

type Case struct {
	Target     env.Target   `json:"target"`
	MPD        string       `json:"mpd"`
	Cfg        refmodel.Cfg `json:"cfg"`
	PPH        int          `json:"pph"`
	Continuous bool         `json:"continuous"`
	NowMS      int64        `json:"now_ms"`
	Kind       string       `json:"instant_kind"`
	// StopS: optional stop time (s). After it the MPD is static; the periods must still be the wall-clock tiles P<k>.
	StopS int64 `json:"stop,omitempty"`
	// ContFirst: continuous_1 is written before periods_N in the URL (the order of options is free)
	ContFirst bool `json:"continuous_first,omitempty"`
}

// effNow is the instant whose segments the MPD describes: the request instant, or the stop time once that has passed.
func (c Case) effNow() int64 {
	if c.StopS > 0 && c.NowMS > c.StopS*1000 {
		return c.StopS * 1000
	}
	return c.NowMS
}

const maxNowMS = 4_102_444_800_000

func min64(a, b int64) int64 {
	if a < b {
		return a
	}
	return b
}

func segDurMS(e *env.Env) int64 {
	// livesim2 documents SegmentDurMS as the smallest average segment duration over the representations (rounded)
	best := int64(0)
	for _, id := range e.Asset.RepIDs() {
		r := e.Asset.Reps[id]
		avg := (int64(r.LoopTicks())*1000*2/int64(r.Timescale)/int64(len(r.Segs)) + 1) / 2
		if best == 0 || avg < best {
			best = avg
		}
	}
	return best
}

func genCase(t *rapid.T) (Case, *env.Env) {
	// generated layouts: video (+text, thumbnails) only. With a re-cut audio track whose loop is not exactly the video loop
	// livesim2's "segment duration" (smallest average over all representations, truncated) is no longer the video segment
	// duration and the rejection clause of the statement has no defined reference; bundled assets cover audio.
	tg := gen.Target(t, assetgen.Opts{Audio: []string{""}, AllowText: true, AllowThumb: true, Uniform: true, MinFrames: 25, MaxFrames: 75,
		Clocks: []assetgen.Clock{{1000, 40}, {12800, 512}, {25000, 1000}, {90000, 3600}}}, 60, nil)
	e, err := env.Get(tg)
	if err != nil {
		t.Fatalf("HARNESS: %v", err)
	}
	var names []string
	for n := range e.Asset.MPDs {
		names = append(names, n)
	}
	sort.Strings(names)
	sd := segDurMS(e)
	cfg := gen.Cfg(t, []string{"number", "time", "tlnr"}, sd, true)
	cfg.StartS, cfg.HasStart = 0, false // period k starts at k*periodDuration in wall-clock terms: start_=0 (see DESIGN)
	if cfg.AtoInf() || cfg.AtoMS >= sd {
		cfg.AtoMS = sd / 4
	}
	if cfg.TsbdS > 900 {
		cfg.TsbdS = 900
	}
	if min := 2*sd/1000 + 1; cfg.TsbdS < min {
		cfg.TsbdS, cfg.HasTsbd = min, true
	}
	if rapid.IntRange(0, 3).Draw(t, "timesubs?") == 0 {
		// generated subtitle adaptation sets must be split like every other set
		cfg.Extra = append(cfg.Extra, strings.Split(rapid.SampledFrom([]string{"timesubsstpp_en", "timesubswvtt_en,sv", "timesubsstpp_en,sv/timesubswvtt_en"}).Draw(t, "timesubs"), "/")...)
	}
	c := Case{Target: tg, MPD: rapid.SampledFrom(names).Draw(t, "mpd"), Cfg: cfg, Continuous: rapid.Bool().Draw(t, "cont")}
	var compatible, incompatible []int
	for pph := 1; pph <= 3600; pph++ {
		if int64(3600/pph)*1000%sd == 0 {
			compatible = append(compatible, pph)
		} else {
			incompatible = append(incompatible, pph)
		}
	}
	switch {
	case len(compatible) == 0 || (len(incompatible) > 0 && rapid.IntRange(0, 5).Draw(t, "reject?") == 0):
		c.PPH = rapid.SampledFrom(incompatible).Draw(t, "pph-bad")
	default:
		c.PPH = rapid.SampledFrom(compatible).Draw(t, "pph")
	}
	P := int64(3600/c.PPH) * 1000
	k := int64(rapid.SampledFrom([]int{0, 1, 2, 3, 10, 1000, 500000}).Draw(t, "k"))
	c.Kind = rapid.SampledFrom([]string{"period-boundary", "period-boundary", "boundary+tsbd", "wrap", "interior"}).Draw(t, "ikind")
	switch c.Kind {
	case "period-boundary":
		c.NowMS = k*P + gen.Delta(t, sd)
	case "boundary+tsbd":
		c.NowMS = k*P + cfg.TsbdS*1000 + gen.Delta(t, sd)
	case "wrap":
		c.NowMS = k*int64(e.Asset.LoopMS)*7 + gen.Delta(t, sd)
	default:
		c.NowMS = k*P + int64(rapid.IntRange(0, int(P)).Draw(t, "in"))
	}
	if c.NowMS < 0 {
		c.NowMS = 0
	}
	if c.NowMS > maxNowMS {
		c.NowMS = maxNowMS
	}
	c.ContFirst = c.Continuous && rapid.IntRange(0, 2).Draw(t, "cont-first") == 0
	if rapid.IntRange(0, 4).Draw(t, "stop?") == 0 && c.NowMS >= 2000 {
		switch rapid.SampledFrom([]string{"passed", "passed", "passed-long-ago", "ahead"}).Draw(t, "stopkind") {
		case "passed":
			c.StopS = c.NowMS/1000 - int64(rapid.IntRange(0, int(min64(2*P/1000+5, c.NowMS/1000-1))).Draw(t, "stop-back"))
		case "passed-long-ago":
			c.StopS = c.NowMS/1000 - int64(rapid.IntRange(0, int(min64(100*P/1000, c.NowMS/1000-1))).Draw(t, "stop-back"))
		default:
			c.StopS = c.NowMS/1000 + 1 + int64(rapid.IntRange(0, 100).Draw(t, "stop-ahead"))
		}
	}
	return c, e
}

type decl struct {
	mpdx.Decl
	url string
}

type info struct {
	periods, nonEmpty int
	rejected          bool
	mapped            int
}

func checkCase(c Case, e *env.Env) (*hx.Violation, info) {
	var inf info
	sd := segDurMS(e)
	base := c.Cfg.Parts()
	if c.StopS > 0 {
		base = append(base, "stop_"+strconv.FormatInt(c.StopS, 10))
	}
	multi := append([]string{}, base...)
	if c.Continuous && c.ContFirst {
		multi = append(multi, "continuous_1")
	}
	multi = append(multi, "periods_"+strconv.Itoa(c.PPH))
	if c.Continuous && !c.ContFirst {
		multi = append(multi, "continuous_1")
	}
	effNow := c.effNow()
	murl := ls.URL(multi, e.Asset.Path, c.MPD, c.NowMS)
	mr := e.Srv.Get(murl)
	P := int64(3600 / c.PPH)
	if P*1000%sd != 0 {
		inf.rejected = true
		if mr.Code == 200 || bytes.Contains(mr.Body, []byte("<MPD")) {
			return hx.V("incompatible-not-rejected", "%s -> %v: period duration %d s is not a multiple of the segment duration %d ms", murl, mr, P, sd), inf
		}
		return nil, inf
	}
	if mr.Code != 200 {
		return hx.V("mpd-status", "%s -> %v", murl, mr), inf
	}
	mm, err := mpdx.Parse(mr.Body)
	if err != nil {
		return hx.V("mpd-unparsable", "%s: %v", murl, err), inf
	}
	surl := ls.URL(base, e.Asset.Path, c.MPD, c.NowMS)
	sr := e.Srv.Get(surl)
	if sr.Code != 200 {
		return hx.V("mpd-status", "%s -> %v", surl, sr), inf
	}
	sm, err := mpdx.Parse(sr.Body)
	if err != nil {
		return hx.V("mpd-unparsable", "%s: %v", surl, err), inf
	}
	inf.periods = len(mm.Periods)
	if len(mm.Periods) == 0 {
		return hx.V("no-periods", "%s: no Period", murl), inf
	}
	// (1) periods tile wall-clock time, ids are P<k>
	var pk []int64
	for i, p := range mm.Periods {
		st, err := mpdx.DurationMS(p.Start)
		if err != nil {
			return hx.V("period-start", "%s: Period@start %q: %v", murl, p.Start, err), inf
		}
		if st%(P*1000) != 0 {
			return hx.V("period-tiling", "%s: Period %s starts at %d ms, not a multiple of the period duration %d s", murl, p.ID, st, P), inf
		}
		k := st / (P * 1000)
		if p.ID != "P"+strconv.FormatInt(k, 10) {
			return hx.V("period-id", "%s: Period starting at %d*%d s has id %q", murl, k, P, p.ID), inf
		}
		if i > 0 && k != pk[i-1]+1 {
			return hx.V("period-tiling", "%s: periods %d and %d are not consecutive", murl, pk[i-1], k), inf
		}
		pk = append(pk, k)
		if len(p.AS) != len(sm.Periods[0].AS) {
			return hx.V("period-adaptation-sets", "%s: period %s has %d adaptation sets, single-period MPD %d", murl, p.ID, len(p.AS), len(sm.Periods[0].AS)), inf
		}
	}
	uniform := true
	for _, sg := range e.Asset.Ref.Segs {
		if sg.Dur() != e.Asset.Ref.Segs[0].Dur() {
			uniform = false
		}
	}
	lastK := pk[len(pk)-1]
	if effNow/(P*1000) != lastK {
		return hx.V("last-period", "%s: last period is P%d but now=%d ms (stop %d s) lies in period %d", murl, lastK, c.NowMS, c.StopS, effNow/(P*1000)), inf
	}
	firstStartMS := pk[0] * P * 1000
	get := func(parts []string, name string) ls.Resp { return e.Srv.Get(ls.URL(parts, e.Asset.Path, name, effNow)) }
	nonEmpty := map[int64]bool{}
	for ai := range sm.Periods[0].AS {
		sas := &sm.Periods[0].AS[ai]
		kind := sas.Kind()
		ts := int64(sas.Tmpl.TS())
		// (4) period-continuity signalled exactly when requested
		for pi := range mm.Periods {
			has := false
			for _, d := range mm.Periods[pi].AS[ai].Supplemental {
				if d.SchemeIdUri == "urn:mpeg:dash:period-continuity:2015" {
					has = true
				}
			}
			if has != c.Continuous {
				return hx.V("period-continuity", "%s: period %s %s set: period-continuity present=%v, requested=%v", murl, mm.Periods[pi].ID, kind, has, c.Continuous), inf
			}
		}
		if sas.Tmpl.Timeline == nil {
			// $Number$ template: per period startNumber/PTO must address the segment that starts at the period start
			if sas.Tmpl.Duration == nil {
				return hx.V("mpd-template", "%s: no duration", surl), inf
			}
			d := int64(*sas.Tmpl.Duration)
			for pi := range mm.Periods {
				mas := &mm.Periods[pi].AS[ai]
				pto := int64(mas.Tmpl.PTOv())
				if pto != pk[pi]*P*ts {
					return hx.V("pto", "%s: period %s %s presentationTimeOffset=%d, expected %d", murl, mm.Periods[pi].ID, kind, pto, pk[pi]*P*ts), inf
				}
				if mas.Tmpl.StartNumber == nil {
					return hx.V("period-startnumber", "%s: period %s %s has no startNumber", murl, mm.Periods[pi].ID, kind), inf
				}
				sn := int64(*mas.Tmpl.StartNumber)
				ssn := int64(1)
				if sas.Tmpl.StartNumber != nil {
					ssn = int64(*sas.Tmpl.StartNumber)
				}
				// in the single-period presentation the segment covering media time pto has number ssn + pto/d
				if pto%d != 0 || !uniform {
					continue // nominal duration does not divide the period, or varying durations: implicit numbering is approximate
				}
				if sn != ssn+pto/d {
					return hx.V("period-startnumber", "%s: period %s %s startNumber=%d; the single-period segment starting at the period start (t=%d) has number %d", murl, mm.Periods[pi].ID, kind, sn, pto, ssn+pto/d), inf
				}
				// fetch it if it is available now (period start + one segment <= now) and inside the window
				relMS := effNow
				endMS := (pto + d) * 1000 / ts
				if kind == "image" || relMS < endMS-c.Cfg.AtoMS+1 || relMS > endMS-c.Cfg.AtoMS+c.Cfg.TsbdS*1000 || sn >= 1<<32-1 {
					continue
				}
				rep := e.Asset.Reps[mas.Reps[0].ID]
				if rep == nil {
					continue
				}
				name := mas.Tmpl.MediaURL(mas.Reps[0].ID, uint64(sn), 0)
				r := get(multi, name)
				if r.Code != 200 {
					return hx.V("period-first-segment", "%s: period %s %s: %s -> %v", murl, mm.Periods[pi].ID, kind, name, r), inf
				}
				seg, err := mp4x.Parse(r.Body, rep.Trex)
				if err != nil {
					return hx.V("segment-unparsable", "%s: %v", name, err), inf
				}
				tol := int64(0)
				if kind == "audio" {
					tol = int64(rep.SampleDur)
				}
				mediaTS := int64(rep.Timescale)
				if df := int64(seg.Start())*ts - pto*mediaTS; df < 0 || df > tol*ts {
					return hx.V("period-first-segment-time", "%s: period %s %s: segment number %d starts at %d/%d, period starts at media time %d/%d", murl, mm.Periods[pi].ID, kind, sn, seg.Start(), mediaTS, pto, ts), inf
				}
				r2 := get(base, name)
				if !bytes.Equal(r.Body, r2.Body) {
					return hx.V("bytes-differ", "%s: %s differs between multi-period and single-period mode", murl, name), inf
				}
				inf.mapped++
				nonEmpty[pk[pi]] = true
			}
			continue
		}
		// (2) SegmentTimeline: map every single-period segment starting at or after the first period's start
		sdecls, err := sas.Tmpl.Expand()
		if err != nil {
			return hx.V("timeline-not-contiguous", "%s: %v", surl, err), inf
		}
		type key struct{ t, d uint64 }
		want := map[key]decl{}
		for _, d := range sdecls {
			if int64(d.T)*1000 >= firstStartMS*ts {
				want[key{d.T, d.D}] = decl{Decl: d, url: sas.Tmpl.MediaURL(sas.Reps[0].ID, d.Nr, d.T)}
			}
		}
		seen := map[key]int{}
		fetched := 0
		for pi := range mm.Periods {
			mas := &mm.Periods[pi].AS[ai]
			if mas.Tmpl == nil || mas.Tmpl.Timeline == nil {
				return hx.V("mpd-template", "%s: period %s %s without SegmentTimeline", murl, mm.Periods[pi].ID, kind), inf
			}
			pto := int64(mas.Tmpl.PTOv())
			if pto != pk[pi]*P*ts {
				return hx.V("pto", "%s: period %s %s presentationTimeOffset=%d, expected %d", murl, mm.Periods[pi].ID, kind, pto, pk[pi]*P*ts), inf
			}
			pdecls, err := mas.Tmpl.Expand()
			if err != nil {
				return hx.V("timeline-not-contiguous", "%s: period %s: %v", murl, mm.Periods[pi].ID, err), inf
			}
			pStart, pEnd := pk[pi]*P*ts, (pk[pi]+1)*P*ts
			for _, d := range pdecls {
				nonEmpty[pk[pi]] = true
				// media time once PTO and Period@start are applied: t - pto + periodStart*ts == t (pto == periodStart*ts)
				if int64(d.T) < pStart || int64(d.T) >= pEnd {
					return hx.V("segment-in-wrong-period", "%s: period %s %s lists a segment starting at %d outside [%d,%d)", murl, mm.Periods[pi].ID, kind, d.T, pStart, pEnd), inf
				}
				w, ok := want[key{d.T, d.D}]
				if !ok {
					return hx.V("extra-segment", "%s: period %s %s lists (t=%d,d=%d) which the single-period MPD does not list", murl, mm.Periods[pi].ID, kind, d.T, d.D), inf
				}
				seen[key{d.T, d.D}]++
				if strings.Contains(mas.Tmpl.Media, "$Number$") && d.Nr != w.Nr {
					return hx.V("number-differs", "%s: period %s %s segment t=%d has number %d, single-period number %d", murl, mm.Periods[pi].ID, kind, d.T, d.Nr, w.Nr), inf
				}
				// (3) same bytes through the period's URL (sample: first and last of each period)
				if fetched < 6 && (d == pdecls[0] || d == pdecls[len(pdecls)-1]) && kind != "image" {
					fetched++
					u := mas.Tmpl.MediaURL(mas.Reps[0].ID, d.Nr, d.T)
					r1, r2 := get(multi, u), get(base, w.url)
					if r1.Code != 200 || r2.Code != 200 || !bytes.Equal(r1.Body, r2.Body) {
						return hx.V("bytes-differ", "%s: %s -> %d (%d bytes) vs single-period %s -> %d (%d bytes)", murl, u, r1.Code, len(r1.Body), w.url, r2.Code, len(r2.Body)), inf
					}
				}
				inf.mapped++
			}
		}
		for k, w := range want {
			if seen[k] == 0 && c.Cfg.AtoMS != 0 && int64(w.T) >= (lastK+1)*P*ts {
				// defect model of KF-C06-ato-next-period: the segment belongs to the period after the last listed one
				return hx.V("KF-C06-ato-next-period", "%s: %s segment (t=%d) starts in period %d which is not listed yet (last listed P%d)", murl, kind, w.T, lastK+1, lastK), inf
			}
			if seen[k] != 1 {
				return hx.V("segment-not-exactly-once", "%s: %s segment (t=%d,d=%d,nr=%d) of the single-period MPD appears %d times in the periods", murl, kind, w.T, w.D, w.Nr, seen[k]), inf
			}
		}
	}
	inf.nonEmpty = len(nonEmpty)
	return nil, inf
}

func TestC06(t *testing.T) {
	run := hx.Start(t, "C06")
	defer run.Finish()
	if run.Replaying() {
		var c Case
		run.ReplayCase(&c)
		e, err := env.Get(c.Target)
		if err != nil {
			t.Fatalf("HARNESS: %v", err)
		}
		if v, _ := checkCase(c, e); v != nil {
			run.Fail(t, c, v)
		}
		return
	}
	run.Essential("type:number", "type:time", "type:tlnr", "rejected", ">=2-nonempty-periods", "continuous")
	run.Rapid(t, 1, 600, 3000, func(rt *rapid.T) {
		c, e := genCase(rt)
		v, inf := checkCase(c, e)
		cls := []string{"type:" + c.Cfg.Type, "instant:" + c.Kind}
		if inf.rejected {
			cls = append(cls, "rejected")
		}
		if c.Continuous {
			cls = append(cls, "continuous")
		}
		if inf.periods >= 2 && inf.nonEmpty >= 2 {
			cls = append(cls, ">=2-nonempty-periods")
			run.NonTrivial(c)
		}
		if c.Target.Layout != nil {
			cls = append(cls, "asset:generated")
		}
		if c.StopS > 0 && c.NowMS > c.StopS*1000 {
			cls = append(cls, "after-stop")
		} else if c.StopS > 0 {
			cls = append(cls, "stop-ahead")
		}
		if c.ContFirst {
			cls = append(cls, "continuous-before-periods")
		}
		if strings.Contains(strings.Join(c.Cfg.Extra, "/"), "timesubs") {
			cls = append(cls, "generated-subtitles")
		}
		run.Eval(cls...)
		run.Sample(map[string]any{"asset": c.Target.Name(), "mpd": c.MPD, "url_parts": c.Cfg.Parts(), "pph": c.PPH, "continuous": c.Continuous, "now_ms": c.NowMS, "stop_s": c.StopS, "periods": inf.periods, "segments_mapped": inf.mapped})
		if v != nil {
			if v.Kind == "harness" {
				rt.Fatalf("HARNESS: %s", v.Msg)
			}
			run.Fail(rt, c, v)
		}
	})
	_ = fmt.Sprint
}
