// Self-check of the asset generator: every generated layout must load in livesim2 and in the harness's own loader.
package gen

import (
	"os"
	"testing"

	"pgregory.net/rapid"
	"verifharness/internal/assetgen"
	"verifharness/internal/ls"
	"verifharness/internal/vod"
)

func TestGeneratorSound(t *testing.T) {
	root, err := os.MkdirTemp("", "gen")
	if err != nil {
		t.Fatal(err)
	}
	defer os.RemoveAll(root)
	var layouts []assetgen.Layout
	rapid.Check(t, func(rt *rapid.T) {
		l := assetgen.Gen(rt, assetgen.Opts{AllowText: true, AllowThumb: true, AudioDelta: []int{0}})
		if _, err := l.Materialize(root); err != nil {
			rt.Fatalf("materialize %+v: %v", l, err)
		}
		layouts = append(layouts, l)
	})
	s, err := ls.New(root)
	if err != nil {
		t.Fatal(err)
	}
	bad := 0
	for _, l := range layouts {
		a, err := vod.Load(root, l.Name())
		if err != nil {
			t.Errorf("vod.Load %+v: %v", l, err)
			continue
		}
		now := int64(1_000_000)
		parts := []string{"segtimeline_1"}
		if l.AvgSegMS() < 1000 {
			parts = append(parts, "mup_1")
		}
		r := s.Get(ls.URL(parts, l.Name(), "Manifest.mpd", now))
		if r.Code != 200 {
			bad++
			t.Errorf("layout %s %+v: MPD %v (loop %d ms)", l.Name(), l, r, a.LoopMS)
		}
	}
	t.Logf("%d layouts, %d bad", len(layouts), bad)
}
