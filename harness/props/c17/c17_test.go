// C17 — ingest receiver: stored media and timeline MPD agree for any arrival order.
package c17

import (
	"bytes"
	"encoding/xml"
	"fmt"
	"os"
	"path/filepath"
	"sort"
	"strconv"
	"strings"
	"sync"
	"sync/atomic"
	"testing"
	"time"

	rxapp "github.com/Dash-Industry-Forum/livesim2/cmd/cmaf-ingest-receiver/app"
	"github.com/Eyevinn/mp4ff/mp4"
	"pgregory.net/rapid"
	"verifharness/internal/hx"
	"verifharness/internal/mpdx"
	"verifharness/internal/rx"
)

type Track struct {
	Name string `json:"name"`
	Kind string `json:"kind"`
}

type Upload struct {
	Track int    `json:"track"`
	Seq   uint32 `json:"seq"`
}

type Case struct {
	TsbdS    uint64   `json:"tsbd_s"`
	DurTicks uint32   `json:"dur_ticks"` // segment duration in video ticks (50000 Hz)
	StartNr  int      `json:"start_nr"`
	Streams  bool     `json:"streams_urls"`
	Tracks   []Track  `json:"tracks"`
	Ops      []Upload `json:"ops"`
	CatchUp  bool     `json:"catch_up"`
	Kind     string   `json:"schedule_kind"`
	// Late: index of the track that starts after the others are done (late-track: init in time, media late;
	// late-init: also its init segment arrives only then, i.e. after the channel has started); -1 if none
	Late int `json:"late_track"`
	// InitAt (late-init): the late track's init segment is uploaded before the operation with this index (its media
	// still come after all other tracks are done)
	InitAt int `json:"late_init_at,omitempty"`
	// Irregular: from the fourth number on every fourth segment (number-Base = 3 mod 4) is half as long; decode times are
	// cumulative, so the timeline has runs of durations A..A B A..A B ...
	Irregular bool   `json:"irregular_durations,omitempty"`
	Base      uint32 `json:"base_number"`
	// TwoChunks: every video segment is uploaded as two chunks (moof+mdat each) whose sample durations are tfhd defaults that
	// differ between the chunks
	TwoChunks bool `json:"two_chunk_video,omitempty"`
}

const chName = "ch1"

func genCase(t *rapid.T) Case {
	c := Case{TsbdS: rapid.SampledFrom([]uint64{4, 8, 20, 60, 300}).Draw(t, "tsbd"),
		DurTicks: rapid.SampledFrom([]uint32{192000, 100000, 50000}).Draw(t, "dur"),
		StartNr:  rapid.SampledFrom([]int{0, 0, 1}).Draw(t, "startnr"), Streams: rapid.Bool().Draw(t, "streams"), CatchUp: rapid.IntRange(0, 3).Draw(t, "catchup") > 0}
	if c.TsbdS*50000/uint64(c.DurTicks) > 64 { // keep the window (and with it the catch-up suffix) at a size that is cheap to check after every step
		c.DurTicks = 192000
	}
	c.Tracks = []Track{{"video-1", "video"}}
	for _, cand := range []Track{{"video-2", "video"}, {"audio-1", "audio"}, {"text-1", "text"}} {
		if rapid.Bool().Draw(t, "track?") {
			c.Tracks = append(c.Tracks, cand)
		}
	}
	T := len(c.Tracks)
	M := rapid.IntRange(1, 12).Draw(t, "M")
	base := uint32(rapid.SampledFrom([]int{100, 5, 1000000}).Draw(t, "base")) + uint32(c.StartNr)
	c.Base = base
	// (renumbered channels and text tracks derive numbers / times from a constant master duration: regular durations only)
	hasText := false
	for _, tr := range c.Tracks {
		hasText = hasText || tr.Kind == "text"
	}
	c.TwoChunks = rapid.IntRange(0, 3).Draw(t, "two-chunks") == 0
	c.Irregular = rapid.IntRange(0, 2).Draw(t, "irregular") == 0 && c.StartNr == 0 && !hasText
	c.Kind = rapid.SampledFrom([]string{"in-order", "in-order", "gaps", "duplicates", "shuffled", "late-track", "late-init"}).Draw(t, "kind")
	if c.Kind != "in-order" {
		// the receiver derives numbers from times with the duration of the first two master segments; only a channel that
		// starts with the regular first two segments keeps the uploaded numbering when later segments are shorter
		c.Irregular = false
	}
	per := make([][]uint32, T)
	for ti := 0; ti < T; ti++ {
		for k := 0; k < M; k++ {
			per[ti] = append(per[ti], base+uint32(k))
		}
		switch c.Kind {
		case "gaps":
			var kept []uint32
			for _, s := range per[ti] {
				if rapid.IntRange(0, 4).Draw(t, "drop") != 0 {
					kept = append(kept, s)
				}
			}
			per[ti] = kept
		case "duplicates":
			if len(per[ti]) > 1 {
				i := rapid.IntRange(0, len(per[ti])-1).Draw(t, "dupi")
				per[ti] = append(per[ti][:i+1], per[ti][i:]...)
			}
		case "shuffled":
			per[ti] = rapid.Permutation(per[ti]).Draw(t, "perm")
		}
	}
	// the interleaving: a merge of the per-track sequences drawn step by step; "late-track": one track starts after the others are done
	late := -1
	if (c.Kind == "late-track" || c.Kind == "late-init") && T > 1 {
		late = rapid.IntRange(1, T-1).Draw(t, "late")
	}
	c.Late = late
	idx := make([]int, T)
	for {
		var avail []int
		for ti := 0; ti < T; ti++ {
			if idx[ti] < len(per[ti]) && ti != late {
				avail = append(avail, ti)
			}
		}
		if len(avail) == 0 {
			if late >= 0 && idx[late] < len(per[late]) {
				c.Ops = append(c.Ops, Upload{late, per[late][idx[late]]})
				idx[late]++
				continue
			}
			break
		}
		ti := rapid.SampledFrom(avail).Draw(t, "next")
		c.Ops = append(c.Ops, Upload{ti, per[ti][idx[ti]]})
		idx[ti]++
	}
	if c.Kind == "late-init" && len(c.Ops) > 0 {
		c.InitAt = rapid.IntRange(0, len(c.Ops)-1).Draw(t, "initat")
	}
	return c
}

func durFor(kind string, durTicks uint32) uint32 {
	tk := rx.Kinds[kind]
	return uint32(uint64(durTicks) * uint64(tk.Timescale) / 50000)
}

type segFile struct {
	seq  uint32
	tfdt uint64
	dur  uint64
}

func readSeg(path string) (segFile, error) {
	f, err := mp4.ReadMP4File(path)
	if err != nil {
		return segFile{}, err
	}
	if len(f.Segments) == 0 || len(f.Segments[0].Fragments) == 0 {
		return segFile{}, fmt.Errorf("no fragment")
	}
	fr := f.Segments[0].Fragments[0]
	var d uint64
	for _, fx := range f.Segments[0].Fragments {
		fss, err := fx.GetFullSamples(nil)
		if err != nil {
			return segFile{}, err
		}
		for _, s := range fss {
			d += uint64(s.Dur)
		}
	}
	return segFile{seq: fr.Moof.Mfhd.SequenceNumber, tfdt: fr.Moof.Traf.Tfdt.BaseMediaDecodeTime(), dur: d}, nil
}

type info struct {
	spread   int // largest distance (in segments) between two tracks' newest numbers
	mpds     int
	lastNr   int64
	gapOrDup bool
	progress bool
}

var pollReads atomic.Int64

func tail(b []byte, n int) []byte {
	if len(b) > n {
		return b[len(b)-n:]
	}
	return b
}

func checkCase(c Case, storage string) (*hx.Violation, info) {
	inf := info{lastNr: -1, gapOrDup: c.Kind == "gaps" || c.Kind == "duplicates"}
	_ = os.RemoveAll(storage)
	if err := os.MkdirAll(storage, 0o755); err != nil {
		return hx.V("harness", "%v", err), inf
	}
	defer os.RemoveAll(storage)
	cfg := &rxapp.Config{Channels: []rxapp.ChannelConfig{{Name: chName, StartNr: c.StartNr, TimeShiftBufferDepthS: uint32(c.TsbdS)}}}
	r, err := rx.New(storage, c.TsbdS, cfg)
	if err != nil {
		return hx.V("harness", "%v", err), inf
	}
	defer r.Cancel()
	urlFor := func(tr Track, name string) string {
		tk := rx.Kinds[tr.Kind]
		if c.Streams {
			return fmt.Sprintf("/%s/Streams(%s%s)", chName, tr.Name, tk.Ext)
		}
		return fmt.Sprintf("/%s/%s/%s%s", chName, tr.Name, name, tk.Ext)
	}
	registered := map[int]bool{}
	sendInit := func(ti int) *hx.Violation {
		tr := c.Tracks[ti]
		init, err := rx.Init(tr.Kind)
		if err != nil {
			return hx.V("harness", "%v", err)
		}
		if code := r.Upload("PUT", urlFor(tr, "init"), init, nil, true); code != 200 {
			return hx.V("init-refused", "init of %s -> %d", tr.Name, code)
		}
		registered[ti] = true
		return nil
	}
	for ti := range c.Tracks {
		if c.Kind == "late-init" && ti == c.Late {
			continue
		}
		if v := sendInit(ti); v != nil {
			return v, inf
		}
	}
	// "the MPD file is always a complete document" also for a reader that does not wait for the receiver: a poller reads the
	// published file while the uploads go on; every read that finds the file must find a whole document
	var pollBad atomic.Value
	pollStop := make(chan struct{})
	var pollWG sync.WaitGroup
	pollWG.Add(1)
	go func() {
		defer pollWG.Done()
		mp := filepath.Join(storage, chName, "manifest_timeline_nr.mpd")
		for {
			select {
			case <-pollStop:
				return
			default:
			}
			b, err := os.ReadFile(mp)
			if err == nil {
				tb := bytes.TrimSpace(b)
				if !bytes.HasSuffix(tb, []byte("</MPD>")) || !bytes.HasPrefix(tb, []byte("<")) {
					if pollBad.Load() == nil {
						pollBad.Store(fmt.Sprintf("a reader polling the published timeline MPD found %d bytes that are not a whole document (tail %q)", len(b), tail(tb, 40)))
					}
					return
				}
				pollReads.Add(1)
			}
			time.Sleep(20 * time.Microsecond)
		}
	}()
	defer func() {
		select {
		case <-pollStop:
		default:
			close(pollStop)
		}
		pollWG.Wait()
	}()
	uploaded := map[string][]byte{} // track/seqOut -> body of the accepted upload (last one)
	newest := make([]int64, len(c.Tracks))
	for i := range newest {
		newest[i] = -1
	}
	var prevNewest int64 = -1
	light := false // in the catch-up suffix the stored files behind the MPD are re-read only every 8th step and at the end
	step := func(i int, op Upload, phase string) *hx.Violation {
		tr := c.Tracks[op.Track]
		tk := rx.Kinds[tr.Kind]
		dur := durFor(tr.Kind, c.DurTicks)
		dts := uint64(op.Seq) * uint64(dur)
		if c.Irregular && op.Seq >= c.Base {
			k := uint64(op.Seq - c.Base)
			short := (k + 0) / 4 // number of short segments among Base..Seq-1: those with index 3, 7, 11, ... < k
			if k%4 == 3 {
				dur /= 2
			}
			full := uint64(durFor(tr.Kind, c.DurTicks))
			dts = uint64(c.Base)*full + (k-short)*full + short*(full/2)
		}
		if !registered[op.Track] {
			if v := sendInit(op.Track); v != nil {
				return v
			}
		}
		mk := rx.MediaSeg
		if c.TwoChunks && tr.Kind == "video" {
			mk = rx.MediaSegTwoChunks
		}
		body, err := mk(tr.Kind, op.Seq, dts, dur, byte(op.Track+1), i%2 == 0)
		if err != nil {
			return hx.V("harness", "%v", err)
		}
		code := r.Upload("PUT", urlFor(tr, strconv.Itoa(int(op.Seq))), body, nil, i%3 != 0)
		if !r.R.VerifQuiesce(chName) {
			return hx.V("harness", "channel missing")
		}
		if m := pollBad.Load(); m != nil {
			return hx.V("mpd-not-atomic", "upload %d: %s", i, m.(string))
		}
		seqOut := int64(op.Seq) - int64(c.StartNr)
		if code == 200 {
			uploaded[fmt.Sprintf("%s/%d", tr.Name, seqOut)] = body
			if seqOut > newest[op.Track] {
				newest[op.Track] = seqOut
			}
		}
		lo, hi := int64(1<<62), int64(-1)
		for _, n := range newest {
			if n >= 0 && n < lo {
				lo = n
			}
			if n > hi {
				hi = n
			}
		}
		if hi >= 0 && lo < 1<<62 && int(hi-lo) > inf.spread {
			inf.spread = int(hi - lo)
		}
		st, ok := r.R.VerifChannelState(chName, true)
		if !ok {
			return hx.V("harness", "no state")
		}
		if len(st.Tracks) != len(registered) {
			return hx.V("tracks-registered", "%s step %d: %d tracks registered, %d uploaded an init segment", phase, i, len(st.Tracks), len(registered))
		}
		// (a) the accepted upload is stored under track/<seq> with the uploaded content
		if code == 200 {
			p := filepath.Join(storage, chName, tr.Name, fmt.Sprintf("%d%s", seqOut, tk.Ext))
			got, err := os.ReadFile(p)
			if err != nil {
				return hx.V("accepted-not-stored", "%s step %d: %s seq %d answered 200 but %s: %v", phase, i, tr.Name, op.Seq, p, err)
			}
			if tr.Kind != "text" && c.StartNr == 0 {
				if !bytes.Equal(got, body) {
					return hx.V("stored-content-differs", "%s step %d: %s differs from the uploaded bytes (%d vs %d bytes)", phase, i, p, len(got), len(body))
				}
			} else {
				sf, err := readSeg(p)
				if err != nil {
					return hx.V("stored-unparsable", "%s: %v", p, err)
				}
				wantT := dts * uint64(tk.OutScale) / uint64(tk.Timescale)
				// text tracks are rescaled and renumbered channels (startNr != 0) re-encoded on purpose: the decode time must be
				// the uploaded one (rescaled) and the sequence number the uploaded or the renumbered one
				if (int64(sf.seq) != seqOut && sf.seq != op.Seq) || sf.tfdt != wantT {
					return hx.V("stored-content-differs", "%s step %d: %s has seq %d tfdt %d, expected seq %d tfdt %d", phase, i, p, sf.seq, sf.tfdt, seqOut, wantT)
				}
			}
		}
		// (d) bounded buffers and storage once the channel has started
		if st.Started {
			for name, n := range st.BufItems {
				if n > st.WindowSize || st.BufCap[name] > int(st.MaxNrBufSegs)+1 {
					return hx.V("buffer-exceeds-window", "%s step %d: buffer of %s holds %d items (capacity %d), window %d", phase, i, name, n, st.BufCap[name], st.WindowSize)
				}
			}
			if st.NrCounters > st.WindowSize {
				return hx.V("buffer-exceeds-window", "%s step %d: %d counters, window %d", phase, i, st.NrCounters, st.WindowSize)
			}
			wantMax := uint32(c.TsbdS*50000/uint64(c.DurTicks)) + 2
			if st.MaxNrBufSegs != wantMax {
				return hx.V("window-size", "%s step %d: maxNrBufSegs %d, timeShiftBufferDepth %d s / segment %d ticks implies %d", phase, i, st.MaxNrBufSegs, c.TsbdS, c.DurTicks, wantMax)
			}
		}
		// (b) the MPD file, if present, is a complete document listing a contiguous range backed by stored segments
		mp := filepath.Join(storage, chName, "manifest_timeline_nr.mpd")
		data, err := os.ReadFile(mp)
		if err != nil {
			return nil
		}
		var probe struct{ XMLName xml.Name }
		if err := xml.Unmarshal(data, &probe); err != nil || probe.XMLName.Local != "MPD" {
			return hx.V("mpd-incomplete", "%s step %d: %s is not a complete MPD document: %v", phase, i, mp, err)
		}
		m, err := mpdx.Parse(data)
		if err != nil || len(m.Periods) != 1 {
			return hx.V("mpd-incomplete", "%s step %d: %v", phase, i, err)
		}
		inf.mpds++
		var first, last int64 = -1, -1
		for ai := range m.Periods[0].AS {
			as := &m.Periods[0].AS[ai]
			if as.Tmpl == nil || as.Tmpl.Timeline == nil || as.Tmpl.StartNumber == nil {
				return hx.V("mpd-template", "%s step %d: adaptation set %d lacks SegmentTimeline/startNumber", phase, i, ai)
			}
			decls, err := as.Tmpl.Expand()
			if err != nil || len(decls) == 0 {
				return hx.V("mpd-timeline", "%s step %d: %s timeline: %v (%d entries)", phase, i, as.Kind(), err, len(decls))
			}
			f, l := int64(decls[0].Nr), int64(decls[len(decls)-1].Nr)
			if first == -1 {
				first, last = f, l
			} else if f != first || l != last {
				return hx.V("mpd-ranges-differ", "%s step %d: adaptation sets list different ranges [%d,%d] vs [%d,%d]", phase, i, first, last, f, l)
			}
			for _, rp := range as.Reps {
				var kind string
				for _, t := range c.Tracks {
					if t.Name == rp.ID {
						kind = t.Kind
					}
				}
				if kind == "" {
					return hx.V("mpd-unknown-rep", "%s step %d: MPD lists representation %q", phase, i, rp.ID)
				}
				tk := rx.Kinds[kind]
				for di, d := range decls {
					if light && di < len(decls)-2 && di > 1 {
						continue
					}
					p := filepath.Join(storage, chName, rp.ID, fmt.Sprintf("%d%s", d.Nr, tk.Ext))
					sf, err := readSeg(p)
					if err != nil {
						// defect model of KF-C17-fast-track-deletes: the track itself removed the file because it is already
						// maxNrBufSegs numbers ahead, while the MPD (bounded by the slowest track) still lists the number
						var ti int
						for k, t := range c.Tracks {
							if t.Name == rp.ID {
								ti = k
							}
						}
						if st.MaxNrBufSegs > 0 && newest[ti] >= 0 && int64(d.Nr) <= newest[ti]-int64(st.MaxNrBufSegs) {
							return hx.V("KF-C17-fast-track-deletes", "%s step %d: the MPD lists number %d (range [%d,%d]) but track %s, already at %d, has removed it (window %d)", phase, i, d.Nr, first, last, rp.ID, newest[ti], st.MaxNrBufSegs)
						}
						return hx.V("listed-not-stored", "%s step %d: the MPD lists number %d (range [%d,%d]) but track %s has no stored segment: %v", phase, i, d.Nr, first, last, rp.ID, err)
					}
					if sf.tfdt != d.T || sf.dur != d.D {
						return hx.V("listed-time-differs", "%s step %d: MPD lists %s number %d as (t=%d,d=%d), stored segment has (t=%d,d=%d)", phase, i, rp.ID, d.Nr, d.T, d.D, sf.tfdt, sf.dur)
					}
				}
			}
		}
		// all tracks that uploaded an init must be represented
		nReps := 0
		for _, as := range m.Periods[0].AS {
			nReps += len(as.Reps)
		}
		// (a document published before a late track registered stays as it is until a number is complete for all tracks again)
		lateInMPD := false
		if c.Kind == "late-init" && c.Late >= 0 {
			for _, as := range m.Periods[0].AS {
				for _, rp := range as.Reps {
					lateInMPD = lateInMPD || rp.ID == c.Tracks[c.Late].Name
				}
			}
		}
		if staleBeforeLate := c.Kind == "late-init" && c.Late >= 0 && registered[c.Late] && !lateInMPD && nReps == len(registered)-1; nReps != len(registered) && !staleBeforeLate {
			return hx.V("mpd-missing-track", "%s step %d: MPD lists %d representations, the channel has %d tracks", phase, i, nReps, len(registered))
		}
		// (c) the newest listed number never decreases
		if last < prevNewest {
			return hx.V("newest-decreases", "%s step %d: newest listed number %d after %d", phase, i, last, prevNewest)
		}
		prevNewest = last
		inf.lastNr = last
		// storage stays within the window: no stored segment is older than the track's newest number minus the window
		for ti, t := range c.Tracks {
			if !st.Started || st.MaxNrBufSegs == 0 || newest[ti] < 0 {
				continue
			}
			ents, _ := os.ReadDir(filepath.Join(storage, chName, t.Name))
			n := 0
			for _, e := range ents {
				if strings.HasPrefix(e.Name(), "init") {
					continue
				}
				n++
				nr, err := strconv.ParseInt(strings.TrimSuffix(e.Name(), filepath.Ext(e.Name())), 10, 64)
				if err == nil && nr < newest[ti]-int64(st.MaxNrBufSegs) {
					// defect model of KF-C17-stragglers: a stored segment is removed only when exactly number+window arrives;
					// if that upload never comes or came before the channel started, the file stays for ever
					return hx.V("KF-C17-stragglers", "%s step %d: %s/%s is still stored although the track is at %d (window %d)", phase, i, t.Name, e.Name(), newest[ti], st.MaxNrBufSegs)
				}
			}
			if n > int(st.MaxNrBufSegs)+1 {
				return hx.V("storage-exceeds-window", "%s step %d: %d segments stored for %s, window %d", phase, i, n, t.Name, st.MaxNrBufSegs)
			}
		}
		return nil
	}
	for i, op := range c.Ops {
		if c.Kind == "late-init" && c.Late >= 0 && i == c.InitAt && !registered[c.Late] {
			if v := sendInit(c.Late); v != nil {
				return v, inf
			}
		}
		if v := step(i, op, "schedule"); v != nil {
			return v, inf
		}
	}
	if c.CatchUp {
		// bounded progress: all tracks upload K fresh consecutive numbers round-robin; the newest listed number reaches the end
		var max uint32
		for _, op := range c.Ops {
			if op.Seq > max {
				max = op.Seq
			}
		}
		K := uint32(c.TsbdS*50000/uint64(c.DurTicks)) + 5
		i := len(c.Ops)
		for k := uint32(1); k <= K; k++ {
			for ti := range c.Tracks {
				light = !(k%8 == 0 || k == K)
				if v := step(i, Upload{ti, max + k}, "catch-up"); v != nil {
					return v, inf
				}
				i++
			}
		}
		want := int64(max+K) - int64(c.StartNr)
		if inf.lastNr != want {
			return hx.V("no-progress", "after %d fresh consecutive segments on every track the newest listed number is %d, expected %d", K, inf.lastNr, want), inf
		}
		inf.progress = true
	}
	return nil, inf
}

func TestC17(t *testing.T) {
	run := hx.Start(t, "C17")
	defer run.Finish()
	storage := filepath.Join(t.TempDir(), "rx")
	if run.Replaying() {
		if rt := run.ReplayTest(); rt != "" && rt != t.Name() {
			return
		}
		var c Case
		run.ReplayCase(&c)
		if v, _ := checkCase(c, storage); v != nil {
			run.Fail(t, c, v)
		}
		return
	}
	run.Essential("tracks>=2-apart", "gap-or-duplicate", "progress-checked", "mpd-written", "small-window", "late-track")
	one := func(c Case, rt interface{ Fatalf(string, ...any) }) {
		run.Journal(c)
		v, inf := checkCase(c, storage)
		cls := []string{"kind:" + c.Kind, "tracks:" + strconv.Itoa(len(c.Tracks))}
		if c.TwoChunks && c.DurTicks == 100000 && !c.Irregular {
			cls = append(cls, "two-chunk-video-segments")
		}
		if inf.spread >= 2 {
			cls = append(cls, "tracks>=2-apart")
		}
		if inf.gapOrDup {
			cls = append(cls, "gap-or-duplicate")
		}
		if inf.progress {
			cls = append(cls, "progress-checked")
		}
		if inf.mpds > 0 {
			cls = append(cls, "mpd-written")
		}
		if c.TsbdS*50000/uint64(c.DurTicks) < 8 {
			cls = append(cls, "small-window")
		}
		if c.Kind == "late-track" {
			cls = append(cls, "late-track")
		}
		if inf.spread >= 2 || inf.gapOrDup {
			run.NonTrivial(c)
		}
		run.Eval(cls...)
		run.Sample(map[string]any{"tsbd_s": c.TsbdS, "dur_ticks": c.DurTicks, "start_nr": c.StartNr, "tracks": c.Tracks, "uploads": len(c.Ops), "schedule": c.Kind, "catch_up": c.CatchUp, "first_ops": firstOps(c.Ops)})
		if v != nil {
			if v.Kind == "harness" {
				rt.Fatalf("HARNESS: %s", v.Msg)
			}
			run.Fail(rt, c, v)
		}
	}
	run.Rapid(t, 1, 120, 600, func(rt *rapid.T) { one(genCase(rt), rt) })
	if run.Thorough() {
		// exhaustive enumeration of all interleavings of 2 tracks x 4 segments in per-track order (70 schedules)
		var rec func(a, b int, ops []Upload)
		count := 0
		rec = func(a, b int, ops []Upload) {
			if a == 4 && b == 4 {
				c := Case{TsbdS: 8, DurTicks: 100000, Tracks: []Track{{"video-1", "video"}, {"audio-1", "audio"}}, Ops: append([]Upload{}, ops...), CatchUp: true, Kind: "enumerated"}
				one(c, t)
				count++
				return
			}
			if a < 4 {
				rec(a+1, b, append(ops, Upload{0, uint32(10 + a)}))
			}
			if b < 4 {
				rec(a, b+1, append(ops, Upload{1, uint32(10 + b)}))
			}
		}
		rec(0, 0, nil)
		run.Note("enumerated_schedules_2x4", count)
	}
	_ = sort.Ints
}

func firstOps(o []Upload) []Upload {
	if len(o) > 8 {
		return o[:8]
	}
	return o
}
