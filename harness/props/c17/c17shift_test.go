// C17, renumbered channels: the uploaded sequence numbers do not equal decode time / segment duration, so the receiver
// derives the numbers from the decode times once the master track has delivered two segments. Tracks other than the master
// need not lie exactly on the master's grid (audio frames end a little before or after a video boundary).
package c17

import (
	"fmt"
	"os"
	"path/filepath"
	"testing"

	rxapp "github.com/Dash-Industry-Forum/livesim2/cmd/cmaf-ingest-receiver/app"
	"pgregory.net/rapid"
	"verifharness/internal/hx"
	"verifharness/internal/mpdx"
	"verifharness/internal/rx"
)

type ShiftCase struct {
	DurTicks uint32 `json:"dur_ticks"` // video segment duration (50 kHz)
	Base     uint32 `json:"base_number"`
	K        uint32 `json:"number_shift"` // decode time = (number + K) * duration
	// AudioOffset: every audio segment starts this many 48 kHz ticks after (negative: before) the video segment of the
	// same number; well below half a segment
	AudioOffset int  `json:"audio_offset_ticks"`
	M           int  `json:"segments"`
	Video2      bool `json:"second_video"`
	Streams     bool `json:"streams_urls"`
	// TimeOff > 0 (video ticks, a multiple of 25): all decode times lie that far after the duration grid and the uploaded numbers
	// are the grid numbers rounded up: decode time = (number + K - 1) * duration + TimeOff. The receiver then shifts the times onto
	// the grid (by duration - TimeOff); with K = 0 the numbers stay as uploaded and only the times move.
	TimeOff uint32 `json:"time_off_ticks,omitempty"`
}

func genShift(t *rapid.T) ShiftCase {
	c := ShiftCase{DurTicks: rapid.SampledFrom([]uint32{192000, 100000}).Draw(t, "dur"), Base: uint32(rapid.SampledFrom([]int{5, 100, 1000000}).Draw(t, "base")),
		K: uint32(rapid.SampledFrom([]int{1, 3, 1000}).Draw(t, "k")), M: rapid.IntRange(5, 10).Draw(t, "M"), Video2: rapid.Bool().Draw(t, "v2"), Streams: rapid.Bool().Draw(t, "streams")}
	if rapid.IntRange(0, 2).Draw(t, "time-shift") == 0 {
		c.TimeOff = uint32(rapid.SampledFrom([]int{25, 1000, int(c.DurTicks) / 4, int(c.DurTicks) / 2, int(c.DurTicks) - 25}).Draw(t, "time-off")) / 25 * 25
		c.K = uint32(rapid.SampledFrom([]int{0, 0, 1, 3}).Draw(t, "k-with-time-shift"))
	}
	dur48 := int(uint64(c.DurTicks) * 48000 / 50000)
	switch rapid.IntRange(0, 3).Draw(t, "offkind") {
	case 0:
		c.AudioOffset = 0
	case 1:
		c.AudioOffset = -rapid.IntRange(1, 1024).Draw(t, "early-frame") // less than one AAC frame early
	case 2:
		c.AudioOffset = rapid.IntRange(1, 1024).Draw(t, "late-frame")
	default:
		c.AudioOffset = rapid.IntRange(-dur48/8, dur48/8).Draw(t, "off")
	}
	return c
}

func checkShift(c ShiftCase, storage string) (*hx.Violation, int) {
	_ = os.RemoveAll(storage)
	if err := os.MkdirAll(storage, 0o755); err != nil {
		return hx.V("harness", "%v", err), 0
	}
	r, err := rx.New(storage, 60, &rxapp.Config{Channels: []rxapp.ChannelConfig{{Name: chName, TimeShiftBufferDepthS: 60}}})
	if err != nil {
		return hx.V("harness", "%v", err), 0
	}
	defer r.Cancel()
	tracks := []Track{{"video-1", "video"}, {"audio-1", "audio"}}
	if c.Video2 {
		tracks = append(tracks, Track{"video-2", "video"})
	}
	url := func(tr Track, name string) string {
		tk := rx.Kinds[tr.Kind]
		if c.Streams {
			return fmt.Sprintf("/%s/Streams(%s%s)", chName, tr.Name, tk.Ext)
		}
		return fmt.Sprintf("/%s/%s/%s%s", chName, tr.Name, name, tk.Ext)
	}
	for _, tr := range tracks {
		init, err := rx.Init(tr.Kind)
		if err != nil {
			return hx.V("harness", "%v", err), 0
		}
		if code := r.Upload("PUT", url(tr, "init"), init, nil, true); code != 200 {
			return hx.V("init-refused", "init of %s -> %d", tr.Name, code), 0
		}
	}
	type up struct{ dts, dur uint64 }
	sent := map[string]map[uint64]up{} // track -> uploaded decode time -> (dts, dur)
	for k := 0; k < c.M; k++ {
		for ti, tr := range tracks {
			seq := c.Base + uint32(k)
			d := durFor(tr.Kind, c.DurTicks)
			dts := int64(uint64(seq+c.K) * uint64(d))
			if c.TimeOff > 0 {
				dts = int64(uint64(seq+c.K-1)*uint64(d)) + int64(uint64(c.TimeOff)*uint64(rx.Kinds[tr.Kind].Timescale)/50000)
			}
			if tr.Kind == "audio" {
				dts += int64(c.AudioOffset)
			}
			body, err := rx.MediaSeg(tr.Kind, seq, uint64(dts), d, byte(ti+1), true)
			if err != nil {
				return hx.V("harness", "%v", err), 0
			}
			if code := r.Upload("PUT", url(tr, fmt.Sprint(seq)), body, nil, true); code != 200 {
				return hx.V("upload-refused", "%s number %d (decode time %d) -> %d", tr.Name, seq, dts, code), 0
			}
			if sent[tr.Name] == nil {
				sent[tr.Name] = map[uint64]up{}
			}
			sent[tr.Name][uint64(dts)] = up{uint64(dts), uint64(d)}
			r.R.VerifQuiesce(chName)
		}
	}
	r.R.VerifQuiesce(chName)
	data, err := os.ReadFile(filepath.Join(storage, chName, "manifest_timeline_nr.mpd"))
	if err != nil {
		return hx.V("no-mpd", "renumbered channel: no timeline MPD after %d segments on every track: %v", c.M, err), 0
	}
	m, err := mpdx.Parse(data)
	if err != nil {
		return hx.V("mpd-incomplete", "%v", err), 0
	}
	type listed struct {
		t, d uint64
		ts   uint64
	}
	perTrack := map[string]map[uint64]listed{}
	kindOf := map[string]string{}
	for _, tr := range tracks {
		kindOf[tr.Name] = tr.Kind
	}
	for _, as := range m.Periods[0].AS {
		decls, err := as.Tmpl.Expand()
		if err != nil {
			return hx.V("timeline-not-contiguous", "renumbered channel: %v", err), 0
		}
		for _, rp := range as.Reps {
			perTrack[rp.ID] = map[uint64]listed{}
			tk := rx.Kinds[kindOf[rp.ID]]
			for _, d := range decls {
				perTrack[rp.ID][d.Nr] = listed{d.T, d.D, uint64(as.Tmpl.TS())}
				// listed => stored, with the listed start time and duration, and it is one of the uploaded segments
				sf, err := readSeg(filepath.Join(storage, chName, rp.ID, fmt.Sprintf("%d%s", d.Nr, tk.Ext)))
				if err != nil {
					return hx.V("listed-not-stored", "renumbered channel: the MPD lists number %d for %s, but: %v", d.Nr, rp.ID, err), 0
				}
				if sf.tfdt != d.T || sf.dur != d.D {
					return hx.V("listed-differs-from-stored", "renumbered channel: %s number %d listed (t=%d,d=%d), stored (t=%d,d=%d)", rp.ID, d.Nr, d.T, d.D, sf.tfdt, sf.dur), 0
				}
				// (on a time-shifted channel the listed time is the uploaded one moved onto the grid; the conversion through the
				// master timescale may cost a tick)
				var shift uint64
				if c.TimeOff > 0 {
					shift = uint64(c.DurTicks-c.TimeOff) * uint64(tk.Timescale) / 50000
				}
				found := false
				for ut, u := range sent[rp.ID] {
					if df := int64(d.T) - int64(shift) - int64(ut); df >= -2 && df <= 2 && u.dur == d.D {
						found = true
					}
				}
				if !found {
					return hx.V("listed-not-uploaded", "renumbered channel: %s number %d listed (t=%d,d=%d): no segment with that decode time (less the channel's time shift %d) and duration was uploaded", rp.ID, d.Nr, d.T, d.D, shift), 0
				}
			}
		}
	}
	v1 := perTrack["video-1"]
	if len(v1) == 0 {
		return hx.V("nothing-listed", "renumbered channel: the MPD lists no segment after %d segments were uploaded in order on every track", c.M), 0
	}
	// one number denotes the same interval on every track (up to the offset of the track, far below half a segment)
	n := 0
	for nr, lv := range v1 {
		for name, lt := range perTrack {
			if name == "video-1" {
				continue
			}
			o, ok := lt[nr]
			if !ok {
				return hx.V("listed-range-differs", "renumbered channel: number %d is listed for video-1 but not for %s", nr, name), 0
			}
			// compare in 1/2400000 s (lcm-free cross multiplication)
			a, b := int64(lv.t*o.ts), int64(o.t*lv.ts)
			half := int64(lv.d*o.ts) / 2
			if a-b > half || b-a > half {
				return hx.V("number-names-different-intervals", "renumbered channel (audio offset %d ticks): number %d starts at %d/%d on video-1 and at %d/%d on %s - more than half a segment apart", c.AudioOffset, nr, lv.t, lv.ts, o.t, o.ts, name), 0
			}
		}
		n++
	}
	return nil, n
}

func TestC17Renumbered(t *testing.T) {
	run := hx.Start(t, "C17")
	defer run.Finish()
	dir := t.TempDir()
	if run.Replaying() {
		if run.ReplayTest() != t.Name() {
			return
		}
		var c ShiftCase
		run.ReplayCase(&c)
		if v, _ := checkShift(c, dir); v != nil {
			run.Fail(t, c, v)
		}
		return
	}
	run.Rapid(t, 3, 60, 600, func(rt *rapid.T) {
		c := genShift(rt)
		run.Journal(c)
		v, n := checkShift(c, dir)
		cls := []string{"renumbered"}
		switch {
		case c.AudioOffset < 0:
			cls = append(cls, "renumbered:audio-early")
		case c.AudioOffset > 0:
			cls = append(cls, "renumbered:audio-late")
		}
		if c.TimeOff > 0 {
			cls = append(cls, "renumbered:time-shifted")
			if c.K == 0 {
				cls = append(cls, "renumbered:time-shift-only")
			}
		}
		if n >= 2 {
			run.NonTrivial(c)
		}
		run.Eval(cls...)
		run.Sample(map[string]any{"renumbered": true, "number_shift": c.K, "audio_offset_ticks": c.AudioOffset, "segments": c.M, "numbers_judged": n})
		if v != nil {
			if v.Kind == "harness" {
				rt.Fatalf("HARNESS: %s", v.Msg)
			}
			run.Fail(rt, c, v)
		}
	})
}
