// C15 — the representation-metadata cache never changes what is served.
package c15

import (
	"bytes"
	"compress/flate"
	"compress/gzip"
	"encoding/json"
	"fmt"
	"io"
	"os"
	"path/filepath"
	"regexp"
	"sort"
	"strings"
	"testing"

	"github.com/Dash-Industry-Forum/livesim2/cmd/livesim2/app"
	"pgregory.net/rapid"
	"verifharness/internal/assetgen"
	"verifharness/internal/hx"
	"verifharness/internal/ls"
	"verifharness/internal/mpdx"
	"verifharness/internal/refmodel"
	"verifharness/internal/vod"
)

type Damage struct {
	At    int    `json:"at,omitempty"` // bit position (modulo the file size) for kind bitflip
	Asset string `json:"asset"`
	Rep   string `json:"rep"`
	Kind  string `json:"kind"` // absent | plain-json | truncated | garbage | wrong-schema | empty | trailing-junk
}

type Case struct {
	Bundled      []string          `json:"bundled"`
	Layouts      []assetgen.Layout `json:"layouts"`
	Inadmissible []assetgen.Layout `json:"inadmissible"`
	Gapped       []assetgen.Layout `json:"gapped,omitempty"` // raw table with a hole at the first boundary
	SharedRoot   bool              `json:"shared_root"`      // metadata root = vod root
	Damages      []Damage          `json:"damages"`
	Rewrite      bool              `json:"rewrite_after_damage"` // run a writing server over the damaged cache before loading
	Instants     []int64           `json:"instants"`
}

// (the two WAVE vectors end in the same directory name and share the representation id "1")
var smallBundled = []string{"testpic_2s", "testpic_alt_seg_dur_stl", "bbb_hevc_ac3_8s", "testpic_6s", "WAVE/vectors/cfhd_sets/12.5_25_50/t3/2022-10-17", "WAVE/vectors/cfhd_sets/14.985_29.97_59.94/t1/2022-10-17"}

func genCase(t *rapid.T) Case {
	var c Case
	nb := rapid.IntRange(1, 3).Draw(t, "nbundled")
	perm := rapid.Permutation(smallBundled).Draw(t, "perm")
	c.Bundled = append(c.Bundled, perm[:nb]...)
	nl := rapid.IntRange(0, 2).Draw(t, "nlayouts")
	for i := 0; i < nl; i++ {
		l := assetgen.Gen(t, assetgen.Opts{AllowText: true, AllowThumb: true, MinFrames: 10, MaxFrames: 60})
		l.TfhdDur = rapid.Bool().Draw(t, "tfhd-defaults") // sample durations as tfhd defaults instead of trun entries
		l.ASCodecs = rapid.IntRange(0, 2).Draw(t, "as-codecs") == 0 // @codecs on the AdaptationSet instead of the Representation
		// a second video representation of the same duration on another clock (its own adaptation set): must be admitted
		for _, grp := range [][]assetgen.Clock{{{Timescale: 1000, FrameDur: 40}, {Timescale: 12800, FrameDur: 512}, {Timescale: 25000, FrameDur: 1000}, {Timescale: 90000, FrameDur: 3600}},
			{{Timescale: 15360, FrameDur: 512}, {Timescale: 90000, FrameDur: 3000}}} {
			var others []assetgen.Clock
			mine := false
			for _, ck := range grp {
				if ck.Timescale == l.VTimescale && ck.FrameDur == l.VFrameDur {
					mine = true
				} else {
					others = append(others, ck)
				}
			}
			if mine && rapid.IntRange(0, 2).Draw(t, "second-video-clock") == 0 {
				ck := rapid.SampledFrom(others).Draw(t, "v2clock")
				l.V2Timescale, l.V2FrameDur = ck.Timescale, ck.FrameDur
			}
		}
		l.TrexStale = l.TfhdDur && l.Audio != "" && rapid.Bool().Draw(t, "trex-stale") // ... and an init segment whose trex default disagrees with them
		if l.Form == "number" && len(l.VSegFrames) >= 2 && len(l.ASegFrames) != 1 {
			l.ShortMPD = rapid.Bool().Draw(t, "short-mpd") // a second MPD describing the same representations with fewer segments
		}
		c.Layouts = append(c.Layouts, l)
	}
	// a layout whose raw segment table has a hole at its first boundary (the loader closes it) and, separately, the bundled
	// MPD style with @duration in seconds and no @timescale
	if rapid.IntRange(0, 2).Draw(t, "gap-layout") == 0 {
		l := assetgen.Gen(t, assetgen.Opts{Audio: []string{""}, MinFrames: 10, MaxFrames: 60, Forms: []string{"number"}, Uniform: true})
		if len(l.VSegFrames) >= 2 {
			l.Gap1 = 1 + rapid.IntRange(0, l.VFrameDur-2).Draw(t, "gap1")
			l.Text, l.Thumbs = false, false
			l.Tag = "gap1"
			c.Gapped = append(c.Gapped, l)
		}
	}
	ni := rapid.IntRange(0, 2).Draw(t, "ninadm")
	for i := 0; i < ni; i++ {
		l := assetgen.Gen(t, assetgen.Opts{Audio: []string{"", "aac"}, MinFrames: 10, MaxFrames: 60, Forms: []string{"timeline"}})
		switch rapid.SampledFrom([]string{"non-integral-ms", "non-integral-ms-seconds-mpd", "reps-disagree"}).Draw(t, "inadm") {
		case "non-integral-ms-seconds-mpd":
			// as below, with the MPD in the bundled style: $Number$, @duration in whole seconds, no @timescale
			l.VTimescale, l.VFrameDur = 30000, 1001
			l.Audio, l.ASegFrames, l.Text, l.Thumbs = "", nil, false, false
			l.Form, l.MPDSeconds = "number", true
			if l.TotalVFrames()%30 == 0 {
				l.VSegFrames[0]++
			}
		case "non-integral-ms":
			// a 1001-based clock with a frame count that is not a multiple of the quantum
			l.VTimescale, l.VFrameDur = 30000, 1001
			l.Audio, l.ASegFrames, l.Text, l.Thumbs = "", nil, false, false
			if l.TotalVFrames()%30 == 0 {
				l.VSegFrames[0]++
			}
		default:
			l.V2Extra = rapid.SampledFrom([]int{-3, 5, 30}).Draw(t, "v2extra")
			if l.VSegFrames[len(l.VSegFrames)-1]+l.V2Extra < 1 {
				l.V2Extra = 5
			}
			// make sure the difference is visible at ms resolution
			if l.V2Extra*l.VFrameDur*1000/l.VTimescale == 0 {
				l.V2Extra = 30
			}
		}
		l.Tag = "inadmissible"
		c.Inadmissible = append(c.Inadmissible, l)
	}
	c.SharedRoot = rapid.Bool().Draw(t, "shared")
	c.Rewrite = rapid.IntRange(0, 2).Draw(t, "rewrite") == 0
	// damages
	type repRef struct{ asset, rep string }
	var reps []repRef
	for _, b := range c.Bundled {
		a, err := vod.Load(ls.BundledRoot, b)
		if err == nil {
			for _, id := range a.RepIDs() {
				reps = append(reps, repRef{b, id})
			}
		}
	}
	for _, l := range c.Layouts {
		reps = append(reps, repRef{l.Name(), "V300"})
		if l.Audio != "" {
			reps = append(reps, repRef{l.Name(), "A48"})
		}
	}
	nd := rapid.IntRange(0, 3).Draw(t, "ndamage")
	for i := 0; i < nd && len(reps) > 0; i++ {
		r := rapid.SampledFrom(reps).Draw(t, "damaged-rep")
		c.Damages = append(c.Damages, Damage{Asset: r.asset, Rep: r.rep, Kind: rapid.SampledFrom([]string{"absent", "plain-json", "stale-plain-beside-gz", "truncated", "garbage", "wrong-schema", "empty", "trailing-junk", "field-type", "bad-media-uri", "bitflip", "bitflip", "bitflip"}).Draw(t, "damage"), At: rapid.IntRange(0, 1<<20).Draw(t, "at")})
	}
	for i := 0; i < 3; i++ {
		c.Instants = append(c.Instants, int64(rapid.SampledFrom([]int{20_000, 100_000, 1_000_000, 1_700_000_000}).Draw(t, "base"))*1+int64(rapid.IntRange(0, 20000).Draw(t, "off")))
	}
	return c
}

func copyTree(src, dst string) error {
	return filepath.Walk(src, func(p string, fi os.FileInfo, err error) error {
		if err != nil {
			return err
		}
		rel, _ := filepath.Rel(src, p)
		if fi.IsDir() {
			return os.MkdirAll(filepath.Join(dst, rel), 0o755)
		}
		if strings.HasSuffix(p, "_data.json.gz") || strings.HasSuffix(p, "_data.json") {
			return nil
		}
		b, err := os.ReadFile(p)
		if err != nil {
			return err
		}
		return os.WriteFile(filepath.Join(dst, rel), b, 0o644)
	})
}

func cacheFiles(root string) (map[string][]byte, error) {
	out := map[string][]byte{}
	err := filepath.Walk(root, func(p string, fi os.FileInfo, err error) error {
		if err != nil {
			return err
		}
		if !fi.IsDir() && (strings.HasSuffix(p, "_data.json.gz") || strings.HasSuffix(p, "_data.json")) {
			b, err := os.ReadFile(p)
			if err != nil {
				return err
			}
			rel, _ := filepath.Rel(root, p)
			out[rel] = b
		}
		return nil
	})
	return out, err
}

type info struct {
	requests     int
	damaged      int
	inadm        int
	leftOut      int
	refused      bool
	gapped       int
	checksumOnly int
	identical    int
}

func checkCase(c Case, work string) (*hx.Violation, info) {
	var inf info
	vodRoot := filepath.Join(work, "vod")
	metaRoot := filepath.Join(work, "meta")
	if c.SharedRoot {
		metaRoot = vodRoot
	}
	_ = os.RemoveAll(work)
	if err := os.MkdirAll(vodRoot, 0o755); err != nil {
		return hx.V("harness", "%v", err), inf
	}
	defer os.RemoveAll(work)
	for _, b := range c.Bundled {
		if err := copyTree(filepath.Join(ls.BundledRoot, b), filepath.Join(vodRoot, b)); err != nil {
			return hx.V("harness", "%v", err), inf
		}
	}
	for _, l := range append(append(append([]assetgen.Layout{}, c.Layouts...), c.Inadmissible...), c.Gapped...) {
		if _, err := l.Materialize(vodRoot); err != nil {
			return hx.V("harness", "materialize: %v", err), inf
		}
	}
	inf.inadm = len(c.Inadmissible)
	drm := func(sc *app.ServerConfig) { sc.DrmCfgFile = ls.RepoRoot() + "/pkg/drm/testdata/drm_config_test.json" }
	scan, err := ls.New(vodRoot, drm)
	if err != nil {
		return hx.V("harness", "scanning server: %v", err), inf
	}
	// write the cache, twice: the files must be identical
	if _, err := ls.New(vodRoot, drm, func(sc *app.ServerConfig) { sc.RepDataRoot = metaRoot; sc.WriteRepData = true }); err != nil {
		return hx.V("write-server", "server with writerepdata does not start: %v", err), inf
	}
	first, err := cacheFiles(metaRoot)
	if err != nil {
		return hx.V("harness", "%v", err), inf
	}
	if _, err := ls.New(vodRoot, drm, func(sc *app.ServerConfig) { sc.RepDataRoot = metaRoot; sc.WriteRepData = true }); err != nil {
		return hx.V("write-server", "second server with writerepdata does not start: %v", err), inf
	}
	second, _ := cacheFiles(metaRoot)
	if len(first) == 0 {
		return hx.V("nothing-written", "writerepdata wrote no metadata file"), inf
	}
	if len(first) != len(second) {
		return hx.V("write-not-idempotent", "%d metadata files after the first write, %d after the second", len(first), len(second)), inf
	}
	for k, v := range first {
		if !bytes.Equal(v, second[k]) {
			return hx.V("write-not-idempotent", "%s differs between two writes", k), inf
		}
	}
	// damage
	damagedAssets := map[string]bool{}
	done := map[string]bool{}
	for _, d := range c.Damages {
		if done[d.Asset+"/"+d.Rep] {
			continue // one damage per cache file
		}
		done[d.Asset+"/"+d.Rep] = true
		p := filepath.Join(metaRoot, d.Asset, d.Rep+"_data.json.gz")
		orig, err := os.ReadFile(p)
		if err != nil {
			continue // no cache file for this representation (e.g. asset not loadable)
		}
		inf.damaged++
		if d.Kind != "plain-json" && d.Kind != "stale-plain-beside-gz" {
			damagedAssets[d.Asset] = true
		}
		switch d.Kind {
		case "absent":
			_ = os.Remove(p)
			damagedAssets[d.Asset] = false
		case "plain-json":
			zr, err := gzip.NewReader(bytes.NewReader(orig))
			if err != nil {
				return hx.V("harness", "%v", err), inf
			}
			plain, _ := io.ReadAll(zr)
			_ = os.Remove(p)
			_ = os.WriteFile(strings.TrimSuffix(p, ".gz"), plain, 0o644)
		case "stale-plain-beside-gz":
			// an older, uncompressed copy (one segment fewer) lies next to the intact compressed file: the compressed one counts
			zr, err := gzip.NewReader(bytes.NewReader(orig))
			if err != nil {
				return hx.V("harness", "%v", err), inf
			}
			plain, _ := io.ReadAll(zr)
			var doc map[string]any
			if err := json.Unmarshal(plain, &doc); err != nil {
				return hx.V("harness", "%v", err), inf
			}
			for k, v := range doc {
				if l, ok := v.([]any); ok && len(l) >= 2 {
					doc[k] = l[:len(l)-1]
				}
			}
			stale, _ := json.Marshal(doc)
			_ = os.WriteFile(strings.TrimSuffix(p, ".gz"), stale, 0o644)
		case "truncated":
			_ = os.WriteFile(p, orig[:len(orig)/2], 0o644)
		case "garbage":
			_ = os.WriteFile(p, []byte("\x1f\x8b\x08garbage that is not a gzip stream at all"), 0o644)
		case "wrong-schema":
			var buf bytes.Buffer
			zw := gzip.NewWriter(&buf)
			_, _ = zw.Write([]byte(`{"id": 7, "segments": "none", "mediaTimescale": "fast"}`))
			_ = zw.Close()
			_ = os.WriteFile(p, buf.Bytes(), 0o644)
		case "field-type", "bad-media-uri":
			// the real metadata, syntactically valid, with one inconsistency: a number turned into a string, or a media
			// template without $Number$/$Time$ (a decoder that fills fields until it meets the problem leaves partial data behind)
			zr, err := gzip.NewReader(bytes.NewReader(orig))
			if err != nil {
				return hx.V("harness", "%v", err), inf
			}
			plain, _ := io.ReadAll(zr)
			var mod []byte
			if d.Kind == "field-type" {
				mod = regexp.MustCompile(`"mediaTimescale":\s*(\d+)`).ReplaceAll(plain, []byte(`"mediaTimescale":"$1"`))
			} else {
				mod = bytes.ReplaceAll(bytes.ReplaceAll(plain, []byte("$Number$"), []byte("x")), []byte("$Time$"), []byte("x"))
			}
			if bytes.Equal(mod, plain) {
				return hx.V("harness", "damage %s did not change %s", d.Kind, p), inf
			}
			var buf bytes.Buffer
			zw := gzip.NewWriter(&buf)
			_, _ = zw.Write(mod)
			_ = zw.Close()
			_ = os.WriteFile(p, buf.Bytes(), 0o644)
		case "bitflip":
			// one flipped bit inside the compressed stream: the gzip checksum no longer matches, whatever the bytes inflate to
			mod := append([]byte{}, orig...)
			if len(mod) > 30 {
				// preferred: a flip after which the deflate stream still inflates to syntactically valid JSON with other content,
				// so that only the checksum tells (searched from the drawn position on); otherwise the drawn position itself
				nbits := (len(mod) - 18) * 8
				chosen := 10*8 + d.At%nbits
				for k := 0; k < 600; k++ {
					bit := 10*8 + (d.At+k*7)%nbits
					try := append([]byte{}, orig...)
					try[bit/8] ^= 1 << (bit % 8)
					out, err := io.ReadAll(flate.NewReader(bytes.NewReader(try[10 : len(try)-8])))
					if err == nil && json.Valid(out) {
						if zr, e2 := gzip.NewReader(bytes.NewReader(orig)); e2 == nil {
							if plain, _ := io.ReadAll(zr); !bytes.Equal(plain, out) {
								chosen = bit
								inf.checksumOnly++
								break
							}
						}
					}
				}
				mod[chosen/8] ^= 1 << (chosen % 8)
			}
			_ = os.WriteFile(p, mod, 0o644)
		case "empty":
			_ = os.WriteFile(p, nil, 0o644)
		case "trailing-junk":
			_ = os.WriteFile(p, append(append([]byte{}, orig...), []byte("trailing junk after the gzip stream")...), 0o644)
		}
	}
	if c.Rewrite {
		// writing is idempotent also over existing (damaged, longer, stale) files: afterwards the files are the fresh ones
		if _, err := ls.New(vodRoot, drm, func(sc *app.ServerConfig) { sc.RepDataRoot = metaRoot; sc.WriteRepData = true }); err != nil {
			return hx.V("write-server", "server with writerepdata does not start over a damaged cache: %v", err), inf
		}
		third, _ := cacheFiles(metaRoot)
		for k, v := range first {
			if !bytes.Equal(v, third[k]) {
				return hx.V("rewrite-not-clean", "%s: after rewriting over a damaged cache the file (%d bytes) differs from a fresh write (%d bytes)", k, len(third[k]), len(v)), inf
			}
		}
		for k := range damagedAssets {
			damagedAssets[k] = false
		}
		for k := range third {
			if strings.HasSuffix(k, "_data.json") {
				_ = os.Remove(filepath.Join(metaRoot, k)) // a plain-json copy left by the damage step would shadow nothing (gz has priority) but is stale
			}
		}
	}
	load, err := ls.New(vodRoot, drm, func(sc *app.ServerConfig) { sc.RepDataRoot = metaRoot })
	if err != nil {
		if inf.damaged > 0 {
			inf.refused = true // a server that refuses to start from a damaged cache serves nothing wrong
			return nil, inf
		}
		return hx.V("load-server", "server does not start from an intact cache: %v", err), inf
	}
	// request set
	var urls []string
	addAsset := func(a *vod.Asset) {
		var names []string
		for n := range a.MPDs {
			names = append(names, n)
		}
		sort.Strings(names)
		for _, now := range c.Instants {
			for _, typ := range []string{"number", "time", "tlnr"} {
				cfg := refmodel.DefaultCfg()
				cfg.Type = typ
				if int64(a.LoopMS)/int64(len(a.Ref.Segs)) < 1000 {
					cfg.Extra = []string{"mup_1"}
				}
				for _, n := range names {
					urls = append(urls, ls.URL(cfg.Parts(), a.Path, n, now))
				}
				for _, id := range a.RepIDs() {
					rep := a.Reps[id]
					tl := refmodel.NewTimeline(a, rep, cfg)
					nn, _ := tl.LastAvailable(now)
					if nn < 0 {
						continue
					}
					urls = append(urls, ls.URL(cfg.Parts(), a.Path, tl.SegName(rep, nn), now))
					if typ == "number" && rep.ContentType != "image" {
						urls = append(urls, ls.URL(cfg.Parts(), a.Path, rep.InitURI, now))
						if strings.HasPrefix(rep.Codecs, "avc") || strings.HasPrefix(rep.Codecs, "mp4a.40") {
							urls = append(urls, ls.URL(append(cfg.Parts(), "eccp_cbcs"), a.Path, rep.InitURI, now), ls.URL(append(cfg.Parts(), "eccp_cenc"), a.Path, tl.SegName(rep, nn), now))
						}
					}
				}
			}
		}
	}
	mpdOf := map[string]string{}
	var admissible []string
	for _, b := range c.Bundled {
		admissible = append(admissible, b)
	}
	for _, l := range c.Layouts {
		admissible = append(admissible, l.Name())
	}
	for _, name := range admissible {
		a, err := vod.Load(vodRoot, name)
		if err != nil {
			return hx.V("harness", "vod.Load %s: %v", name, err), inf
		}
		addAsset(a)
		var names []string
		for n := range a.MPDs {
			names = append(names, n)
		}
		sort.Strings(names)
		mpdOf[name] = names[0]
	}
	for _, l := range c.Inadmissible {
		for _, now := range c.Instants[:1] {
			urls = append(urls, ls.URL(nil, l.Name(), "Manifest.mpd", now), ls.URL([]string{"segtimeline_1"}, l.Name(), "Manifest.mpd", now), ls.URL(nil, l.Name(), "V300/init.mp4", now))
		}
	}
	// (5) the loaded segment table of every served representation is contiguous: judged through the SegmentTimeline MPD over
	// more than one loop (every S follows its predecessor) and by fetching every listed segment, on both servers; the layouts
	// whose raw files have a hole at the first boundary are there to make the loader's gap closing matter
	var contigAssets []string
	for _, l := range c.Gapped {
		contigAssets = append(contigAssets, l.Name())
		inf.gapped++
	}
	contigAssets = append(contigAssets, admissible...)
	for _, name := range contigAssets {
		for si, srv := range []*ls.Server{scan, load} {
			if si == 1 && damagedAssets[name] {
				continue
			}
			now := int64(60_000)
			mpdName := mpdOf[name]
			if mpdName == "" {
				mpdName = "Manifest.mpd"
			}
			mr := srv.Get(ls.URL([]string{"segtimeline_1", "tsbd_50"}, name, mpdName, now))
			if mr.Code != 200 {
				if si == 1 {
					continue // left out by the cache-loaded server: judged by the comparison below
				}
				return hx.V("gapped-asset-not-served", "%s: MPD -> %v", name, mr), inf
			}
			m, err := mpdx.Parse(mr.Body)
			if err != nil {
				return hx.V("mpd-unparsable", "%s: %v", name, err), inf
			}
			for _, as := range m.Periods[0].AS {
				if as.Tmpl == nil || as.Tmpl.Timeline == nil {
					continue
				}
				decls, err := as.Tmpl.Expand()
				if err != nil {
					return hx.V("table-not-contiguous", "asset %s (server %d), adaptation set %s: %v", name, si, as.Kind(), err), inf
				}
				for k, d := range decls {
					if k > 0 && k < len(decls)-1 && len(as.Reps) > 0 && k%3 == 0 {
						su := ls.URL([]string{"segtimeline_1", "tsbd_50"}, name, as.Tmpl.MediaURL(as.Reps[0].ID, d.Nr, d.T), now)
						if r := srv.Get(su); r.Code != 200 {
							return hx.V("listed-segment-not-served", "%s -> %d (listed in the SegmentTimeline of the same instant)", su, r.Code), inf
						}
					}
				}
			}
		}
	}
	urls = append(urls, "/assets")
	for _, u := range urls {
		rs, rl := scan.Get(u), load.Get(u)
		inf.requests++
		inadm := false
		for _, l := range c.Inadmissible {
			if strings.Contains(u, "/"+l.Name()+"/") {
				inadm = true
			}
		}
		if inadm {
			// (4) inadmissible layouts are left out on every server
			if rs.Code == 200 || rl.Code == 200 {
				return hx.V("inadmissible-served", "%s -> scan %d, cache-loaded %d: the asset's loop is not a whole number of ms / its representations disagree in duration", u, rs.Code, rl.Code), inf
			}
			continue
		}
		if u == "/assets" {
			for _, l := range c.Inadmissible {
				if bytes.Contains(rs.Body, []byte(l.Name())) || bytes.Contains(rl.Body, []byte(l.Name())) {
					return hx.V("inadmissible-listed", "/assets lists the inadmissible asset %s", l.Name()), inf
				}
			}
			for _, name := range admissible {
				if !bytes.Contains(rs.Body, []byte(name)) {
					return hx.V("admissible-asset-left-out", "/assets of the scanning server does not list %s, whose loop is a whole number of ms and whose representations agree in duration", name), inf
				}
				if !bytes.Contains(rl.Body, []byte(name)) && !damagedAssets[name] {
					return hx.V("asset-missing-from-cache-server", "/assets of the cache-loaded server does not list %s although its cache is intact", name), inf
				}
			}
			continue
		}
		if rs.Code != 200 && rs.Code != 404 && rs.Code != 410 && rs.Code != 425 {
			return hx.V("harness", "scanning server: %s -> %v", u, rs), inf
		}
		same := rs.Code == rl.Code && bytes.Equal(rs.Body, rl.Body) && rs.Header.Get("Content-Type") == rl.Header.Get("Content-Type")
		if same {
			inf.identical++
			continue
		}
		asset := ""
		for _, name := range admissible {
			if strings.Contains(u, "/"+name+"/") {
				asset = name
			}
		}
		if damagedAssets[asset] && rl.Code == 404 {
			inf.leftOut++ // asset left out because its cache is damaged
			continue
		}
		return hx.V("cache-changes-response", "%s: scanning server -> %d (%d bytes, %s), cache-loaded server -> %d (%d bytes, %s); cache of %q damaged: %v", u, rs.Code, len(rs.Body), rs.Header.Get("Content-Type"), rl.Code, len(rl.Body), rl.Header.Get("Content-Type"), asset, damagedAssets[asset]), inf
	}
	// (5) the loaded segment tables are contiguous: the SegmentTimeline over two loops expands without a gap
	for _, name := range admissible {
		if damagedAssets[name] {
			continue
		}
		a, _ := vod.Load(vodRoot, name)
		parts := []string{"segtimeline_1", fmt.Sprintf("tsbd_%d", 2*a.LoopMS/1000+2)}
		if int64(a.LoopMS)/int64(len(a.Ref.Segs)) < 1000 {
			parts = append(parts, "mup_1")
		}
		for n := range a.MPDs {
			r := load.Get(ls.URL(parts, a.Path, n, int64(5*a.LoopMS)+500))
			if r.Code != 200 {
				return hx.V("mpd-status", "cache-loaded server: %s %s -> %v", name, n, r), inf
			}
			m, err := mpdx.Parse(r.Body)
			if err != nil {
				return hx.V("mpd-unparsable", "%v", err), inf
			}
			for _, as := range m.Periods[0].AS {
				if as.Tmpl == nil || as.Tmpl.Timeline == nil {
					continue
				}
				if _, err := as.Tmpl.Expand(); err != nil {
					return hx.V("segment-table-not-contiguous", "cache-loaded server, %s %s %s: %v", name, n, as.Kind(), err), inf
				}
			}
		}
	}
	return nil, inf
}

func TestC15(t *testing.T) {
	run := hx.Start(t, "C15")
	defer run.Finish()
	work := filepath.Join(t.TempDir(), "c15")
	if run.Replaying() {
		var c Case
		run.ReplayCase(&c)
		if v, _ := checkCase(c, work); v != nil {
			run.Fail(t, c, v)
		}
		return
	}
	run.Essential("damaged-cache", "inadmissible-asset", "intact-cache", "shared-root", "separate-root")
	run.Rapid(t, 1, 40, 200, func(rt *rapid.T) {
		c := genCase(rt)
		v, inf := checkCase(c, work)
		cls := []string{}
		if inf.damaged > 0 {
			cls = append(cls, "damaged-cache")
		} else {
			cls = append(cls, "intact-cache")
		}
		if inf.inadm > 0 {
			cls = append(cls, "inadmissible-asset")
		}
		if c.SharedRoot {
			cls = append(cls, "shared-root")
		} else {
			cls = append(cls, "separate-root")
		}
		if inf.refused {
			cls = append(cls, "server-refused-damaged-cache")
		}
		if inf.leftOut > 0 {
			cls = append(cls, "asset-left-out")
		}
		if inf.damaged > 0 || inf.inadm > 0 {
			run.NonTrivial(c)
		}
		run.Eval(cls...)
		run.Note("requests_compared", inf.requests)
		run.Sample(map[string]any{"bundled": c.Bundled, "generated": len(c.Layouts), "inadmissible": len(c.Inadmissible), "shared_root": c.SharedRoot, "damages": c.Damages, "requests": inf.requests, "identical": inf.identical, "left_out_404": inf.leftOut})
		if v != nil {
			if v.Kind == "harness" {
				rt.Fatalf("HARNESS: %s", v.Msg)
			}
			run.Fail(rt, c, v)
		}
	})
}
