// C05 — the MPD only moves forward, and publishTime identifies its content.
package c05

import (
	"bytes"
	"fmt"
	"regexp"
	"sort"
	"strconv"
	"testing"

	"pgregory.net/rapid"
	"verifharness/internal/assetgen"
	"verifharness/internal/env"
	"verifharness/internal/gen"
	"verifharness/internal/hx"
	"verifharness/internal/ls"
	"verifharness/internal/mpdx"
	"verifharness/internal/refmodel"
)

type Case struct {
	Target   env.Target   `json:"target"`
	MPD      string       `json:"mpd"`
	Cfg      refmodel.Cfg `json:"cfg"`
	Periods  int          `json:"periods,omitempty"` // periods per hour, 0 = single period
	StopS    int64        `json:"stop,omitempty"`    // stop time (s), 0 = none
	Instants []int64      `json:"instants"`
	Regime   string       `json:"regime"`
}

const maxNowMS = 4_102_444_800_000

func genCase(t *rapid.T) (Case, *env.Env) {
	tg := gen.Target(t, assetgen.Opts{AllowThumb: true, AllowText: true}, 45, nil)
	e, err := env.Get(tg)
	if err != nil {
		t.Fatalf("HARNESS: %v", err)
	}
	var names []string
	for n := range e.Asset.MPDs {
		names = append(names, n)
	}
	sort.Strings(names)
	segMS := int64(e.Asset.LoopMS) / int64(len(e.Asset.Ref.Segs))
	cfg := gen.Cfg(t, []string{"number", "time", "tlnr"}, segMS, true)
	if cfg.AtoInf() {
		cfg.AtoMS = 0
	}
	if cfg.AtoMS >= segMS && cfg.Type == "number" {
		cfg.AtoMS = segMS / 3
	}
	if cfg.TsbdS > 600 {
		cfg.TsbdS = 600
	}
	if tg.Layout != nil && tg.Layout.AvgSegMS() < 1000 {
		cfg.Extra = []string{"mup_1"}
		if cfg.TsbdS > 120 {
			cfg.TsbdS = 120
		}
	}
	if rapid.IntRange(0, 4).Draw(t, "utc?") == 0 {
		// UTCTiming elements are part of the document: none of them may make it depend on the request instant
		cfg.Extra = append(cfg.Extra, rapid.SampledFrom([]string{"utc_direct", "utc_direct-httpiso", "utc_httpxsdate-ntp", "utc_head-sntp-direct"}).Draw(t, "utc"))
	}
	c := Case{Target: tg, MPD: rapid.SampledFrom(names).Draw(t, "mpd"), Cfg: cfg}
	// multi-period: only values whose period duration is a multiple of the segment duration (rejection is C06's)
	if rapid.IntRange(0, 3).Draw(t, "periods?") == 0 {
		var ok []int
		for _, pph := range []int{1, 2, 4, 10, 30, 60, 120, 360, 900, 1800} {
			if int64(3600/pph)*1000%segMS == 0 && int64(e.Asset.LoopMS)%segMS == 0 && segMS*int64(len(e.Asset.Ref.Segs)) == int64(e.Asset.LoopMS) {
				ok = append(ok, pph)
			}
		}
		if len(ok) > 0 && tg.Layout == nil {
			c.Periods = rapid.SampledFrom(ok).Draw(t, "pph")
			// Period@start is stated in wall-clock terms (k*periodDuration); with start_ != 0 the statement is ambiguous (see C06)
			c.Cfg.StartS, c.Cfg.HasStart = 0, false
			if min := 2*segMS/1000 + 1; c.Cfg.TsbdS < min {
				c.Cfg.TsbdS, c.Cfg.HasTsbd = min, true
			}
			if c.Cfg.TsbdS == 0 {
				// an empty time-shift window on a period boundary lists nothing at all (the newest segment belongs to the
				// period that just left the window): outside the checked domain, noted in DESIGN.md
				c.Cfg.TsbdS = 1
			}
			cfg = c.Cfg
		}
	}
	tl := refmodel.NewTimeline(e.Asset, e.Asset.Ref, cfg)
	n, regime := gen.Index(t, tl, cfg.StartS)
	c.Regime = regime
	ts := tl.TS()
	base := gen.CeilDivU(tl.AvailU(n), ts)
	if base < cfg.StartS*1000 {
		base = cfg.StartS * 1000
	}
	set := map[int64]bool{}
	k := rapid.IntRange(2, 24).Draw(t, "ninst")
	for i := 0; i < k; i++ {
		var v int64
		switch rapid.SampledFrom([]string{"edge", "edge", "next-edge", "window", "interior", "far"}).Draw(t, "bp") {
		case "edge":
			v = base + gen.Delta(t, segMS)
		case "next-edge":
			j := int64(rapid.IntRange(1, 6).Draw(t, "j"))
			v = gen.CeilDivU(tl.AvailU(n+j), ts) + gen.Delta(t, segMS/2)
		case "window":
			j := int64(rapid.IntRange(0, 3).Draw(t, "j"))
			v = gen.CeilDivU(tl.AvailU(n+j), ts) + cfg.AtoMS + cfg.TsbdS*1000 + gen.Delta(t, segMS/2)
		case "interior":
			v = base + int64(rapid.IntRange(0, int(4*segMS)).Draw(t, "in"))
		default:
			v = base + int64(rapid.IntRange(0, int(3*e.Asset.LoopMS)).Draw(t, "far"))
		}
		if v >= cfg.StartS*1000 && v <= maxNowMS {
			set[v] = true
		}
	}
	if rapid.IntRange(0, 4).Draw(t, "stop?") == 0 {
		c.StopS = (base+int64(rapid.IntRange(0, int(6*segMS)).Draw(t, "stopd")))/1000 + 1
		for i := 0; i < 3; i++ {
			set[c.StopS*1000+int64(rapid.IntRange(-2000, 100000).Draw(t, "after-stop"))] = true
		}
	}
	for v := range set {
		if v >= cfg.StartS*1000 && v <= maxNowMS {
			c.Instants = append(c.Instants, v)
		}
	}
	sort.Slice(c.Instants, func(i, j int) bool { return c.Instants[i] < c.Instants[j] })
	return c, e
}

type obs struct {
	now       int64
	body      []byte
	m         *mpdx.MPD
	pubMS     int64
	firstT    int64 // time of the first listed video segment (-1 none), in reference ticks; multi-period: absolute
	lastT     int64
	static    bool
	firstPer  string
	lastPer   string
	ambiguous bool // the instant lies within 1 ms of an availability instant that is not computed exactly
}

var (
	reTimeline = regexp.MustCompile(`(?s)<SegmentTimeline>.*?</SegmentTimeline>`)
	reStartNr  = regexp.MustCompile(` startNumber="\d+"`)
)

// stripWindow removes what a pure removal at the start of the window changes (defect model of KF-C05-window-removal).
func stripWindow(b []byte) []byte {
	b = reTimeline.ReplaceAll(b, []byte("<SegmentTimeline/>"))
	return reStartNr.ReplaceAll(b, nil)
}

type info struct {
	breakpoints int
	fractional  bool
	docs        int
}

func checkCase(c Case, e *env.Env) (*hx.Violation, info) {
	var inf info
	parts := c.Cfg.Parts()
	if c.Periods > 0 {
		parts = append(parts, "periods_"+strconv.Itoa(c.Periods))
	}
	if c.StopS > 0 {
		parts = append(parts, "stop_"+strconv.FormatInt(c.StopS, 10))
	}
	tl := refmodel.NewTimeline(e.Asset, e.Asset.Ref, c.Cfg)
	for _, s := range e.Asset.Ref.Segs {
		if s.End*1000%e.Asset.Ref.Timescale != 0 || (s.End*1000/e.Asset.Ref.Timescale)%1000 != 0 {
			inf.fractional = true
		}
	}
	hasVideo := len(e.Asset.RepsOfType(c.MPD, "video")) > 0
	var all []obs
	for _, now := range c.Instants {
		url := ls.URL(parts, e.Asset.Path, c.MPD, now)
		r := e.Srv.Get(url)
		if r.Code != 200 {
			return hx.V("mpd-status", "%s -> %v", url, r), inf
		}
		m, err := mpdx.Parse(r.Body)
		if err != nil {
			return hx.V("mpd-unparsable", "%s: %v", url, err), inf
		}
		o := obs{now: now, body: r.Body, m: m, firstT: -1, lastT: -1, static: m.Type == "static"}
		o.pubMS, err = mpdx.TimeMS(m.PublishTime)
		if err != nil {
			return hx.V("publishtime-format", "%s: publishTime %q: %v", url, m.PublishTime, err), inf
		}
		stopped := c.StopS > 0 && now > c.StopS*1000
		if stopped {
			if !o.static {
				return hx.V("stop-not-static", "%s: type=%q after the stop time", url, m.Type), inf
			}
			d, err := mpdx.DurationMS(m.MediaPresentationDuration)
			if err != nil || d != (c.StopS-c.Cfg.StartS)*1000 {
				return hx.V("stop-duration", "%s: mediaPresentationDuration=%q, expected %d s", url, m.MediaPresentationDuration, c.StopS-c.Cfg.StartS), inf
			}
		} else {
			if o.static {
				return hx.V("static-before-stop", "%s: static MPD before the stop time", url), inf
			}
			if o.pubMS > now {
				return hx.V("publishtime-future", "%s: publishTime %s is later than the request instant %d ms", url, m.PublishTime, now), inf
			}
		}
		// first/last listed segment of the reference (video, else first) adaptation set, as absolute media time
		if len(m.Periods) > 0 {
			o.firstPer, o.lastPer = m.Periods[0].ID, m.Periods[len(m.Periods)-1].ID
		}
		if c.Cfg.Type != "number" {
			for pi := range m.Periods {
				for ai := range m.Periods[pi].AS {
					as := &m.Periods[pi].AS[ai]
					if (hasVideo && as.Kind() != "video") || (!hasVideo && as.Kind() != "audio") || as.Tmpl == nil {
						continue
					}
					decls, err := as.Tmpl.Expand()
					if err != nil {
						return hx.V("timeline-not-contiguous", "%s: %v", url, err), inf
					}
					if len(decls) == 0 {
						continue
					}
					if o.firstT < 0 {
						o.firstT = int64(decls[0].T)
					}
					o.lastT = int64(decls[len(decls)-1].T)
				}
			}
			// the live edge at this instant is the newest ended segment (both sides of every breakpoint)
			if !stopped && hasVideo && c.Periods == 0 { // with periods the per-period mapping is C06's
				lo, hi := tl.NewestRange(now, tl.TS())
				o.ambiguous = lo != hi
				ok := false
				for cand := hi; cand >= lo; cand-- {
					if (cand < 0 && o.lastT < 0) || (cand >= 0 && o.lastT == tl.Start(cand)) {
						ok = true
					}
				}
				if !ok {
					return hx.V("live-edge", "%s: newest listed t=%d, model expects n in [%d,%d] (t=%d)", url, o.lastT, lo, hi, tl.Start(max64(hi, 0))), inf
				}
				// publishTime = instant of the most recent change = availability instant of the newest listed segment
				if o.lastT >= 0 {
					nn := tl.IndexAtTime(o.lastT)
					if nn >= 0 {
						a := tl.AvailU(nn)
						ast := c.Cfg.StartS * 1000
						loMS, hiMS := a/tl.TS(), gen.CeilDivU(a, tl.TS())
						if loMS < ast {
							loMS, hiMS = ast, ast
						}
						if o.pubMS < loMS || o.pubMS > hiMS {
							return hx.V("publishtime-not-change-instant", "%s: publishTime %s (%d ms), the newest listed segment n=%d became available at %d/%d ms", url, m.PublishTime, o.pubMS, nn, a, tl.TS()), inf
						}
					}
				}
			}
		}
		all = append(all, o)
	}
	inf.docs = len(all)
	for i := 1; i < len(all); i++ {
		a, b := all[i-1], all[i]
		if b.pubMS < a.pubMS {
			return hx.V("publishtime-decreases", "publishTime %s at %d ms, then %s at %d ms", a.m.PublishTime, a.now, b.m.PublishTime, b.now), inf
		}
		if a.static && !b.static {
			return hx.V("dynamic-after-static", "MPD dynamic again at %d ms", b.now), inf
		}
		if !a.static && !b.static {
			if b.firstT >= 0 && a.firstT >= 0 && b.firstT < a.firstT {
				return hx.V("first-moves-back", "first listed segment t=%d at %d ms, then t=%d at %d ms", a.firstT, a.now, b.firstT, b.now), inf
			}
			if a.lastT >= 0 && b.lastT < a.lastT {
				return hx.V("last-moves-back", "newest listed segment t=%d at %d ms, then t=%d at %d ms", a.lastT, a.now, b.lastT, b.now), inf
			}
			if a.lastT != b.lastT {
				inf.breakpoints++
			}
		}
	}
	// publishTime identifies content (all pairs)
	for i := 0; i < len(all); i++ {
		for j := i + 1; j < len(all); j++ {
			a, b := all[i], all[j]
			same := bytes.Equal(a.body, b.body)
			if a.static && b.static && !same {
				return hx.V("static-changes", "static MPD differs between %d ms and %d ms", a.now, b.now), inf
			}
			if a.static || b.static || a.ambiguous || b.ambiguous {
				continue
			}
			if c.Cfg.Type == "number" && c.Periods == 0 && !same {
				return hx.V("number-mpd-changes", "plain $Number$ single-period MPD differs between %d ms and %d ms", a.now, b.now), inf
			}
			if a.pubMS == b.pubMS && !same {
				kind := "same-publishtime-different-content"
				if bytes.Equal(stripWindow(a.body), stripWindow(b.body)) && a.lastT == b.lastT && c.Periods == 0 && onlyLeadingRemoved(a.m, b.m) {
					// defect model: the only difference is the removal of leading SegmentTimeline entries (window start moved)
					kind = "KF-C05-window-removal"
				} else if c.Periods > 0 && a.lastT == b.lastT && a.lastPer == b.lastPer && (a.firstPer != b.firstPer || a.firstT != b.firstT) {
					kind = "KF-C05-window-removal"
				} else if c.Periods > 0 && c.Cfg.Type != "number" && a.lastPer != b.lastPer && (a.lastT == b.lastT || c.Cfg.AtoMS != 0) {
					// defect model: a new Period is appended at a period boundary that is not the availability instant of a
					// segment (with ato != 0 the segments of the coming period are available, and counted in publishTime,
					// before the period is listed), so publishTime does not move
					kind = "KF-C05-period-start"
				}
				return hx.V(kind, "publishTime %s at both %d ms and %d ms but the documents differ (first listed %d vs %d, first period %s vs %s)", a.m.PublishTime, a.now, b.now, a.firstT, b.firstT, a.firstPer, b.firstPer), inf
			}
			if a.pubMS != b.pubMS && same {
				return hx.V("different-publishtime-same-content", "impossible: identical documents with different publishTime"), inf
			}
		}
	}
	return nil, inf
}

// onlyLeadingRemoved is the document side of the defect model KF-C05-window-removal for single-period MPDs: in every
// adaptation set the declared segments of one document are a suffix of those of the other (same numbers, times and
// durations), and at least one set lost leading entries. (The sets may lose them at slightly different instants:
// their timescales round the window start differently.)
func onlyLeadingRemoved(a, b *mpdx.MPD) bool {
	if len(a.Periods) != 1 || len(b.Periods) != 1 || len(a.Periods[0].AS) != len(b.Periods[0].AS) {
		return false
	}
	differs := false
	for i := range a.Periods[0].AS {
		ta, tb := a.Periods[0].AS[i].Tmpl, b.Periods[0].AS[i].Tmpl
		if ta == nil || tb == nil {
			if ta != tb {
				return false
			}
			continue
		}
		da, err1 := ta.Expand()
		db, err2 := tb.Expand()
		if err1 != nil || err2 != nil {
			return false
		}
		if len(da) < len(db) {
			da, db = db, da
		}
		off := len(da) - len(db)
		for k := range db {
			x, y := da[off+k], db[k]
			if x.T != y.T || x.D != y.D || (ta.StartNumber != nil && tb.StartNumber != nil && x.Nr != y.Nr) {
				return false
			}
		}
		if off > 0 {
			differs = true
		}
	}
	return differs
}

func max64(a, b int64) int64 {
	if a > b {
		return a
	}
	return b
}

func TestC05(t *testing.T) {
	run := hx.Start(t, "C05")
	defer run.Finish()
	if run.Replaying() {
		var c Case
		run.ReplayCase(&c)
		e, err := env.Get(c.Target)
		if err != nil {
			t.Fatalf("HARNESS: %v", err)
		}
		if v, _ := checkCase(c, e); v != nil {
			run.Fail(t, c, v)
		}
		return
	}
	run.Essential("type:number", "type:time", "type:tlnr", "fractional-second-ends", "crosses-breakpoint", "stop", "periods")
	run.Rapid(t, 1, 500, 3000, func(rt *rapid.T) {
		c, e := genCase(rt)
		v, inf := checkCase(c, e)
		cls := []string{"type:" + c.Cfg.Type, "n:" + c.Regime}
		if inf.fractional {
			cls = append(cls, "fractional-second-ends")
		}
		if inf.breakpoints > 0 {
			cls = append(cls, "crosses-breakpoint")
			run.NonTrivial(c)
		}
		if c.StopS > 0 {
			cls = append(cls, "stop")
		}
		if c.Periods > 0 {
			cls = append(cls, "periods")
		}
		if c.Cfg.AtoMS != 0 {
			cls = append(cls, "ato!=0")
		}
		run.Eval(cls...)
		run.Sample(map[string]any{"asset": c.Target.Name(), "mpd": c.MPD, "url_parts": c.Cfg.Parts(), "periods": c.Periods, "stop": c.StopS, "instants": len(c.Instants), "breakpoints_crossed": inf.breakpoints})
		if v != nil {
			if v.Kind == "harness" {
				rt.Fatalf("HARNESS: %s", v.Msg)
			}
			run.Fail(rt, c, v)
		}
	})
	_ = fmt.Sprint
}
