package c05

import (
	"fmt"
	"os"
	"testing"

	"verifharness/internal/env"
	"verifharness/internal/hx"
	"verifharness/internal/ls"
)

// TestDebugDump prints the MPDs of a replay case (development aid: VERIF_DUMP=1).
func TestDebugDump(t *testing.T) {
	if os.Getenv("VERIF_DUMP") == "" {
		return
	}
	run := hx.Start(t, "C05")
	var c Case
	run.ReplayCase(&c)
	e, _ := env.Get(c.Target)
	parts := c.Cfg.Parts()
	for _, now := range c.Instants {
		r := e.Srv.Get(ls.URL(parts, e.Asset.Path, c.MPD, now))
		fmt.Printf("=== %d -> %d\n%s\n", now, r.Code, r.Body)
	}
}
