package c11

import (
	"testing"

	"pgregory.net/rapid"
)

// FuzzC11Trees drives the generator of TestC11Trees from Go's coverage-guided fuzzer (rapid.MakeFuzz turns the fuzzer's
// bytes into the generator's draws), thorough tier only. Same oracle: old + MPDDiff(old,new), applied with the harness's
// own RFC 5261 applier, must equal new. A saved failing input is replayed with run/check.py --replay.
func FuzzC11Trees(f *testing.F) {
	f.Add([]byte{})
	f.Add([]byte{1, 2, 3, 4, 5, 6, 7, 8, 9, 10, 11, 12, 13, 14, 15, 16})
	f.Fuzz(rapid.MakeFuzz(func(rt *rapid.T) {
		c := genTree(rt)
		v, _ := checkTree(c)
		if v != nil && v.Kind != "harness" {
			rt.Fatalf("VERIF-FAIL %s: %s", v.Kind, v.Msg)
		}
	}))
}
