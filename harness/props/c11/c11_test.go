// C11 — applying a served MPD patch to the old MPD yields the new MPD.
package c11

import (
	"bytes"
	"fmt"
	"net/url"
	"sort"
	"strconv"
	"strings"
	"testing"

	"github.com/Dash-Industry-Forum/livesim2/pkg/patch"
	"pgregory.net/rapid"
	"verifharness/internal/assetgen"
	"verifharness/internal/env"
	"verifharness/internal/gen"
	"verifharness/internal/hx"
	"verifharness/internal/ls"
	"verifharness/internal/mpdx"
	"verifharness/internal/refmodel"
	"verifharness/internal/xmlpatch"
)

// ---------------------------------------------------------------- HTTP level

type HCase struct {
	Target  env.Target   `json:"target"`
	MPD     string       `json:"mpd"`
	Cfg     refmodel.Cfg `json:"cfg"`
	Periods int          `json:"periods,omitempty"`
	TTL     int          `json:"ttl"`
	T1      int64        `json:"t1_ms"`
	T2      int64        `json:"t2_ms"`
	Pair    string       `json:"pair_kind"`
}

func genH(t *rapid.T) (HCase, *env.Env) {
	tg := gen.Target(t, assetgen.Opts{AllowThumb: true, AllowText: true, MinFrames: 25, MaxFrames: 200}, 50, nil)
	e, err := env.Get(tg)
	if err != nil {
		t.Fatalf("HARNESS: %v", err)
	}
	var names []string
	for n := range e.Asset.MPDs {
		names = append(names, n)
	}
	sort.Strings(names)
	segMS := int64(e.Asset.LoopMS) / int64(len(e.Asset.Ref.Segs))
	cfg := gen.Cfg(t, []string{"time", "tlnr"}, segMS, true)
	if cfg.AtoInf() || cfg.AtoMS >= segMS {
		cfg.AtoMS = segMS / 4
	}
	if cfg.TsbdS > 300 {
		cfg.TsbdS = 300
	}
	if tg.Layout != nil && tg.Layout.AvgSegMS() < 1000 {
		cfg.Extra = []string{"mup_1"}
	}
	if rapid.IntRange(0, 5).Draw(t, "timeoffset?") == 0 {
		cfg.Extra = append(cfg.Extra, "timeoffset_"+rapid.SampledFrom([]string{"1", "7.5", "-3", "100"}).Draw(t, "toff"))
	}
	if rapid.IntRange(0, 3).Draw(t, "timesubs?") == 0 {
		// generated subtitle adaptation sets (they mirror the video timeline), one or both kinds
		cfg.Extra = append(cfg.Extra, strings.Split(rapid.SampledFrom([]string{"timesubsstpp_en", "timesubswvtt_en,sv", "timesubsstpp_en,sv/timesubswvtt_en", "timesubswvtt_de/timesubsstpp_en"}).Draw(t, "timesubs"), "/")...)
	}
	c := HCase{Target: tg, MPD: rapid.SampledFrom(names).Draw(t, "mpd"), Cfg: cfg, TTL: rapid.SampledFrom([]int{1, 10, 30, 60, 600}).Draw(t, "ttl")}
	if tg.Layout == nil && rapid.IntRange(0, 3).Draw(t, "periods?") == 0 {
		var ok []int
		for _, pph := range []int{10, 30, 60, 120, 180, 360, 900} {
			if int64(3600/pph)*1000%segMS == 0 {
				ok = append(ok, pph)
			}
		}
		if len(ok) > 0 {
			c.Periods = rapid.SampledFrom(ok).Draw(t, "pph")
			c.Cfg.StartS, c.Cfg.HasStart = 0, false
			if rapid.IntRange(0, 2).Draw(t, "number-template") == 0 {
				c.Cfg.Type = "number" // plain $Number$ templates: the document changes (and publishTime moves) at period boundaries only
			}
			if min := 2*segMS/1000 + 1; c.Cfg.TsbdS < min {
				c.Cfg.TsbdS, c.Cfg.HasTsbd = min, true
			}
		}
	}
	tl := refmodel.NewTimeline(e.Asset, e.Asset.Ref, c.Cfg)
	n, _ := gen.Index(t, tl, c.Cfg.StartS)
	ts := tl.TS()
	c.T1 = gen.CeilDivU(tl.AvailU(n), ts) + gen.Delta(t, segMS)
	if c.T1 < c.Cfg.StartS*1000 {
		c.T1 = c.Cfg.StartS * 1000
	}
	c.Pair = rapid.SampledFrom([]string{"same-piece", "one-segment", "few-segments", "wrap", "near-ttl", "beyond-ttl"}).Draw(t, "pair")
	switch c.Pair {
	case "same-piece":
		c.T2 = c.T1 + int64(rapid.IntRange(1, int(segMS/2)+1).Draw(t, "d"))
	case "one-segment":
		c.T2 = c.T1 + segMS + gen.Delta(t, segMS/2)
	case "few-segments":
		c.T2 = c.T1 + segMS*int64(rapid.IntRange(2, 8).Draw(t, "k")) + gen.Delta(t, segMS/2)
	case "wrap":
		c.T2 = c.T1 + int64(e.Asset.LoopMS) + gen.Delta(t, segMS)
	case "near-ttl":
		c.T2 = c.T1 + int64(c.TTL)*1000 + gen.Delta(t, segMS)
	default:
		c.T2 = c.T1 + int64(c.TTL+10)*1000 + segMS*2 + int64(rapid.IntRange(0, 100000).Draw(t, "d"))
	}
	if c.Periods > 0 && rapid.Bool().Draw(t, "around-period-boundary") {
		// multi-period: t1 up to two loops after a period boundary, t2 in the same or in the next period
		P := int64(3600/c.Periods) * 1000
		B := (c.T1/P + 1) * P
		c.T1 = B + int64(rapid.IntRange(0, int(2*e.Asset.LoopMS)).Draw(t, "after-boundary"))
		c.T2 = c.T1 + rapid.SampledFrom([]int64{1 + int64(e.Asset.LoopMS)/2, int64(e.Asset.LoopMS), int64(e.Asset.LoopMS) + segMS, P - segMS, P, P + segMS}).Draw(t, "boundary-d")
		c.Pair = "around-period-boundary"
		if int64(c.TTL)*1000 < c.T2-c.T1 {
			c.TTL = 600
		}
	}
	if c.T2 <= c.T1 {
		c.T2 = c.T1 + 1
	}
	hasOffset := false
	for _, x := range c.Cfg.Extra {
		hasOffset = hasOffset || strings.HasPrefix(x, "timeoffset_")
	}
	if c.Periods == 0 && !hasOffset && rapid.IntRange(0, 7).Draw(t, "stop?") == 0 {
		// the presentation stops between the two instants: the MPD of t2 is static
		stopS := (c.T1 + (c.T2-c.T1)/2) / 1000
		if stopS*1000 > c.T1 && stopS*1000 < c.T2 && stopS > c.Cfg.StartS {
			c.Cfg.Extra = append(c.Cfg.Extra, "stop_"+strconv.FormatInt(stopS, 10))
		}
	}
	return c, e
}

type hinfo struct {
	status int
	ops    int
	adds   bool
	rems   bool
}

func checkH(c HCase, e *env.Env) (*hx.Violation, hinfo) {
	var inf hinfo
	parts := append(c.Cfg.Parts(), "patch_"+strconv.Itoa(c.TTL))
	if c.Periods > 0 {
		parts = append(parts, "periods_"+strconv.Itoa(c.Periods))
	}
	get := func(now int64) (ls.Resp, string) {
		u := ls.URL(parts, e.Asset.Path, c.MPD, now)
		return e.Srv.Get(u), u
	}
	r1, u1 := get(c.T1)
	if r1.Code == 425 && strings.Contains(strings.Join(parts, "/"), "timeoffset_-") {
		inf.status = 425 // a negative time offset moves the instant before availabilityStartTime: no MPD yet, nothing to patch
		return nil, inf
	}
	if r1.Code != 200 {
		return hx.V("mpd-status", "%s -> %v", u1, r1), inf
	}
	m1, err := mpdx.Parse(r1.Body)
	if err != nil {
		return hx.V("mpd-unparsable", "%v", err), inf
	}
	if len(m1.PatchLocation) != 1 {
		return hx.V("no-patch-location", "%s: %d PatchLocation elements", u1, len(m1.PatchLocation)), inf
	}
	if m1.PatchLocation[0].TTL != strconv.Itoa(c.TTL) {
		return hx.V("patch-ttl", "%s: PatchLocation@ttl=%q, configured %d", u1, m1.PatchLocation[0].TTL, c.TTL), inf
	}
	loc := strings.TrimSpace(m1.PatchLocation[0].Value)
	if !strings.Contains(loc, "publishTime="+url.QueryEscape(m1.PublishTime)) {
		return hx.V("patch-location", "%s: PatchLocation %q does not carry publishTime %s", u1, loc, m1.PublishTime), inf
	}
	purl := loc + "&nowMS=" + strconv.FormatInt(c.T2, 10)
	pr := e.Srv.Get(purl)
	inf.status = pr.Code
	r2, u2 := get(c.T2)
	if r2.Code != 200 {
		return hx.V("mpd-status", "%s -> %v", u2, r2), inf
	}
	m2, err := mpdx.Parse(r2.Body)
	if err != nil {
		return hx.V("mpd-unparsable", "%v", err), inf
	}
	p1, _ := mpdx.TimeMS(m1.PublishTime)
	p2, _ := mpdx.TimeMS(m2.PublishTime)
	switch {
	case p1 == p2:
		if pr.Code != 425 {
			return hx.V("unchanged-not-425", "%s: publishTime unchanged (%s) but the patch request -> %v", purl, m1.PublishTime, pr), inf
		}
		return nil, inf
	case p2-p1 > int64(c.TTL+10)*1000:
		if pr.Code != 410 {
			return hx.V("expired-not-410", "%s: %d ms between the publish times with ttl %d s, patch request -> %v", purl, p2-p1, c.TTL, pr), inf
		}
		return nil, inf
	case p2-p1 > int64(c.TTL)*1000:
		// between ttl and ttl + 10 s (the documented margin) both answers are accepted - unless the two request instants
		// themselves lie within the ttl: the statement promises a patch for any t1 < t2 within the time-to-live
		if pr.Code == 410 && c.T2-c.T1 > int64(c.TTL)*1000 {
			return nil, inf
		}
		if pr.Code == 410 {
			return hx.V("gone-within-ttl", "%s: the two instants are %d ms apart, within the ttl of %d s (publish times %d ms apart), yet the patch request -> 410", purl, c.T2-c.T1, c.TTL, p2-p1), inf
		}
	}
	if pr.Code != 200 {
		v := hx.V("patch-status", "%s (publishTime %s -> %s) -> %v", purl, m1.PublishTime, m2.PublishTime, pr)
		if pr.Code == 425 {
			// defect model KF-C11-base-mismatch, second symptom: the MPD the handler regenerates "at publishTime" (it adds 1 ms)
			// is already the document of t2 - something became available within that millisecond - so it sees nothing to patch
			ou := ls.URL(parts, e.Asset.Path, c.MPD, 0)
			ou = ou[:strings.Index(ou, "?")] + "?publishTime=" + url.QueryEscape(m1.PublishTime)
			if ro := e.Srv.Get(ou); ro.Code == 200 && !bytes.Equal(ro.Body, r1.Body) {
				if mo, err := mpdx.Parse(ro.Body); err == nil && mo.PublishTime == m2.PublishTime {
					v.Kind = "KF-C11-base-mismatch"
				}
			}
		}
		return v, inf
	}
	pd, err := xmlpatch.Parse(pr.Body)
	if err != nil {
		return hx.V("patch-unparsable", "%s: %v", purl, err), inf
	}
	if pd.Name != "Patch" {
		return hx.V("patch-root", "root element %s", pd.Name), inf
	}
	if v, _ := pd.Attr("originalPublishTime"); v != m1.PublishTime {
		return hx.V("original-publishtime", "%s: originalPublishTime=%q, the MPD that advertised the patch has publishTime %s", purl, v, m1.PublishTime), inf
	}
	if v, _ := pd.Attr("publishTime"); v != m2.PublishTime {
		return hx.V("patch-publishtime", "%s: publishTime=%q, the MPD at t2 has %s", purl, v, m2.PublishTime), inf
	}
	if v, _ := pd.Attr("mpdId"); v != m1.ID || v == "" {
		return hx.V("patch-mpdid", "%s: mpdId=%q, MPD id %q", purl, v, m1.ID), inf
	}
	d1, err1 := xmlpatch.Parse(r1.Body)
	d2, err2 := xmlpatch.Parse(r2.Body)
	if err1 != nil || err2 != nil {
		return hx.V("harness", "%v %v", err1, err2), inf
	}
	for _, op := range pd.Children {
		if op.Name == "add" {
			inf.adds = true
		}
		if op.Name == "remove" {
			inf.rems = true
		}
	}
	got, nOps, aerr := xmlpatch.Apply(d1, pd)
	inf.ops = nOps
	if aerr == nil && got.Canon() == d2.Canon() {
		return nil, inf
	}
	// defect model KF-C11-base-mismatch: the handler diffs against the MPD it regenerates at publishTime+1 ms,
	// which is not the document of t1 when the window start moved in between
	// the handler regenerates the old document by asking itself for the MPD "at publishTime": the same request is made here
	ou := ls.URL(parts, e.Asset.Path, c.MPD, 0)
	ou = ou[:strings.Index(ou, "?")] + "?publishTime=" + url.QueryEscape(m1.PublishTime)
	ro := e.Srv.Get(ou)
	if ro.Code == 200 {
		if do, err := xmlpatch.Parse(ro.Body); err == nil && do.Canon() != d1.Canon() {
			if g2, _, e2 := xmlpatch.Apply(do, pd); e2 == nil && g2.Canon() == d2.Canon() {
				return hx.V("KF-C11-base-mismatch", "%s: the patch transforms the MPD regenerated at publishTime+1 ms into the new MPD, but not the MPD served at t1=%d (apply error: %v)", purl, c.T1, aerr), inf
			}
		}
	}
	if aerr != nil {
		return hx.V("patch-not-applicable", "%s: %v\npatch:\n%s", purl, aerr, pr.Body), inf
	}
	return hx.V("patched-differs", "%s: MPD(t1)+patch differs from MPD(t2)\n%s", purl, firstDiffLines(got.Canon(), d2.Canon())), inf
}

func firstDiffLines(a, b string) string {
	la, lb := strings.Split(a, "\n"), strings.Split(b, "\n")
	for i := 0; i < len(la) && i < len(lb); i++ {
		if la[i] != lb[i] {
			return fmt.Sprintf("line %d:\n patched: %s\n     new: %s", i, strings.TrimSpace(la[i]), strings.TrimSpace(lb[i]))
		}
	}
	return fmt.Sprintf("lengths %d vs %d lines", len(la), len(lb))
}

func TestC11HTTP(t *testing.T) {
	run := hx.Start(t, "C11")
	defer run.Finish()
	if run.Replaying() {
		if run.ReplayTest() != t.Name() {
			return
		}
		var c HCase
		run.ReplayCase(&c)
		e, err := env.Get(c.Target)
		if err != nil {
			t.Fatalf("HARNESS: %v", err)
		}
		if v, _ := checkH(c, e); v != nil {
			run.Fail(t, c, v)
		}
		return
	}
	run.Essential("http:200", "http:425", "http:410", "http:add+remove")
	run.Rapid(t, 1, 500, 3000, func(rt *rapid.T) {
		c, e := genH(rt)
		v, inf := checkH(c, e)
		cls := []string{"http", "http:pair:" + c.Pair, "http:type:" + c.Cfg.Type, "http:" + strconv.Itoa(inf.status)}
		if c.Periods > 0 {
			cls = append(cls, "http:periods")
		}
		if inf.adds && inf.rems {
			cls = append(cls, "http:add+remove")
		}
		if inf.ops >= 2 {
			run.NonTrivial(c)
		}
		run.Eval(cls...)
		run.Sample(map[string]any{"kind": "http", "asset": c.Target.Name(), "mpd": c.MPD, "url_parts": c.Cfg.Parts(), "periods": c.Periods, "ttl": c.TTL, "t1": c.T1, "t2": c.T2, "pair": c.Pair, "status": inf.status, "ops": inf.ops})
		if v != nil {
			if v.Kind == "harness" {
				rt.Fatalf("HARNESS: %s", v.Msg)
			}
			run.Fail(rt, c, v)
		}
	})
}

// ---------------------------------------------------------------- library level: MPDDiff on generated id-carrying trees

type TreeCase struct {
	Old string `json:"old"`
	New string `json:"new"`
}

type tnode struct {
	name  string
	attrs [][2]string
	kids  []*tnode
	text  string
}

func (n *tnode) render(b *strings.Builder, ind string) {
	b.WriteString(ind + "<" + n.name)
	for _, a := range n.attrs {
		fmt.Fprintf(b, ` %s="%s"`, a[0], a[1])
	}
	if len(n.kids) == 0 && n.text == "" {
		b.WriteString("/>\n")
		return
	}
	b.WriteString(">")
	if n.text != "" {
		b.WriteString(n.text)
	} else {
		b.WriteString("\n")
	}
	for _, k := range n.kids {
		k.render(b, ind+" ")
	}
	if n.text == "" {
		b.WriteString(ind)
	}
	b.WriteString("</" + n.name + ">\n")
}

func (n *tnode) clone() *tnode {
	c := &tnode{name: n.name, text: n.text, attrs: append([][2]string{}, n.attrs...)}
	for _, k := range n.kids {
		c.kids = append(c.kids, k.clone())
	}
	return c
}

func genTimeline(t *rapid.T, label string) *tnode {
	tl := &tnode{name: "SegmentTimeline"}
	n := rapid.IntRange(0, 5).Draw(t, label+"nS")
	tt := rapid.IntRange(0, 100000).Draw(t, label+"t0")
	for i := 0; i < n; i++ {
		d := rapid.SampledFrom([]int{1000, 2000, 2002, 96256, 95232}).Draw(t, label+"d")
		s := &tnode{name: "S", attrs: [][2]string{{"d", strconv.Itoa(d)}}}
		if i == 0 {
			s.attrs = append([][2]string{{"t", strconv.Itoa(tt)}}, s.attrs...)
		}
		if r := rapid.IntRange(0, 6).Draw(t, label+"r"); r > 0 {
			s.attrs = append(s.attrs, [2]string{"r", strconv.Itoa(r)})
		}
		tl.kids = append(tl.kids, s)
	}
	return tl
}

func genAS(t *rapid.T, id int) *tnode {
	as := &tnode{name: "AdaptationSet", attrs: [][2]string{{"id", strconv.Itoa(id)}, {"contentType", rapid.SampledFrom([]string{"video", "audio", "text"}).Draw(t, "ct")}}}
	switch rapid.IntRange(0, 3).Draw(t, "role") {
	case 1:
		as.kids = append(as.kids, &tnode{name: "Role", attrs: [][2]string{{"schemeIdUri", "urn:mpeg:dash:role:2011"}, {"value", "main"}}})
	case 2:
		// two descriptors of one scheme told apart by their ids (DescriptorType@id): the id is what addresses them
		as.kids = append(as.kids, &tnode{name: "Role", attrs: [][2]string{{"schemeIdUri", "urn:mpeg:dash:role:2011"}, {"value", "main"}, {"id", "ro" + strconv.Itoa(id) + "a"}}},
			&tnode{name: "Role", attrs: [][2]string{{"schemeIdUri", "urn:mpeg:dash:role:2011"}, {"value", "alternate"}, {"id", "ro" + strconv.Itoa(id) + "b"}}})
	}
	st := &tnode{name: "SegmentTemplate", attrs: [][2]string{{"media", "$RepresentationID$/$Time$.m4s"}, {"timescale", "90000"}}}
	if rapid.Bool().Draw(t, "sn") {
		st.attrs = append(st.attrs, [2]string{"startNumber", strconv.Itoa(rapid.IntRange(0, 999).Draw(t, "snv"))})
	}
	st.kids = append(st.kids, genTimeline(t, "as"))
	as.kids = append(as.kids, st)
	nr := rapid.IntRange(1, 3).Draw(t, "nrep")
	for r := 0; r < nr; r++ {
		as.kids = append(as.kids, &tnode{name: "Representation", attrs: [][2]string{{"id", fmt.Sprintf("r%d_%d", id, r)}, {"bandwidth", strconv.Itoa(1000 * (r + 1))}}})
	}
	return as
}

func genPeriod(t *rapid.T, k int, asBase *int) *tnode {
	p := &tnode{name: "Period", attrs: [][2]string{{"id", "P" + strconv.Itoa(k)}, {"start", fmt.Sprintf("PT%dS", 60*k)}}}
	n := rapid.IntRange(1, 3).Draw(t, "nas")
	for i := 0; i < n; i++ {
		*asBase++
		p.kids = append(p.kids, genAS(t, *asBase))
	}
	return p
}

func pubTime(sec int) string { return fmt.Sprintf("2024-04-16T07:%02d:%02dZ", 30+sec/60, sec%60) }

func genTree(t *rapid.T) TreeCase {
	asID := 0
	root := &tnode{name: "MPD", attrs: [][2]string{{"xmlns", "urn:mpeg:dash:schema:mpd:2011"}, {"id", "m1"}, {"type", "dynamic"}, {"publishTime", pubTime(0)}, {"availabilityStartTime", "1970-01-01T00:00:00Z"}}}
	root.kids = append(root.kids, &tnode{name: "PatchLocation", attrs: [][2]string{{"ttl", "60"}}, text: "/patch/x.mpp?publishTime=" + pubTime(0)})
	np := rapid.IntRange(1, 3).Draw(t, "nper")
	k0 := rapid.IntRange(0, 50).Draw(t, "k0")
	for i := 0; i < np; i++ {
		root.kids = append(root.kids, genPeriod(t, k0+i, &asID))
	}
	root.kids = append(root.kids, &tnode{name: "UTCTiming", attrs: [][2]string{{"schemeIdUri", "urn:mpeg:dash:utc:http-xsdate:2014"}, {"value", "https://time.example/?iso"}}})
	nw := root.clone()
	dt := rapid.IntRange(1, 50).Draw(t, "dt")
	for i := range nw.attrs {
		if nw.attrs[i][0] == "publishTime" {
			nw.attrs[i][1] = pubTime(dt)
		}
	}
	nw.kids[0].text = "/patch/x.mpp?publishTime=" + pubTime(dt)
	// edit script
	nEd := rapid.IntRange(0, 6).Draw(t, "nedits")
	periods := func() []*tnode {
		var ps []*tnode
		for _, k := range nw.kids {
			if k.name == "Period" {
				ps = append(ps, k)
			}
		}
		return ps
	}
	for e := 0; e < nEd; e++ {
		ps := periods()
		switch rapid.SampledFrom([]string{"s-append", "s-append", "s-drop-first", "s-drop-first", "s-repeat", "s-insert-mid", "attr-change", "attr-add", "attr-remove", "period-append", "period-drop-first", "as-add", "rep-add", "rep-remove", "leaf-text", "leaf-text+attr", "noid-remove", "noid-add", "role-change", "role-change"}).Draw(t, "edit") {
		case "s-append", "s-drop-first", "s-repeat", "s-insert-mid":
			if len(ps) == 0 {
				continue
			}
			p := ps[rapid.IntRange(0, len(ps)-1).Draw(t, "p")]
			var ass []*tnode
			for _, k := range p.kids {
				if k.name == "AdaptationSet" {
					ass = append(ass, k)
				}
			}
			if len(ass) == 0 {
				continue
			}
			as := ass[rapid.IntRange(0, len(ass)-1).Draw(t, "a")]
			var tl *tnode
			for _, k := range as.kids {
				if k.name == "SegmentTemplate" {
					tl = k.kids[0]
				}
			}
			if tl == nil {
				continue
			}
			switch rapid.SampledFrom([]string{"append", "drop", "repeat", "mid"}).Draw(t, "sop") {
			case "append":
				tl.kids = append(tl.kids, &tnode{name: "S", attrs: [][2]string{{"d", strconv.Itoa(rapid.SampledFrom([]int{1000, 2000, 2002, 96256}).Draw(t, "nd"))}}})
				if len(tl.kids) == 1 {
					tl.kids[0].attrs = append([][2]string{{"t", "0"}}, tl.kids[0].attrs...)
				}
			case "drop":
				if len(tl.kids) > 0 {
					tl.kids = tl.kids[1:]
					if len(tl.kids) > 0 {
						has := false
						for _, a := range tl.kids[0].attrs {
							if a[0] == "t" {
								has = true
							}
						}
						if !has {
							tl.kids[0].attrs = append([][2]string{{"t", strconv.Itoa(rapid.IntRange(0, 100000).Draw(t, "nt"))}}, tl.kids[0].attrs...)
						}
					}
				}
			case "repeat":
				if len(tl.kids) > 0 {
					s := tl.kids[rapid.IntRange(0, len(tl.kids)-1).Draw(t, "si")]
					found := false
					for i := range s.attrs {
						if s.attrs[i][0] == "r" {
							s.attrs[i][1] = strconv.Itoa(rapid.IntRange(1, 9).Draw(t, "nr"))
							found = true
						}
					}
					if !found {
						s.attrs = append(s.attrs, [2]string{"r", strconv.Itoa(rapid.IntRange(1, 9).Draw(t, "nr"))})
					}
				}
			case "mid":
				if len(tl.kids) > 1 {
					i := rapid.IntRange(1, len(tl.kids)-1).Draw(t, "mi")
					ns := &tnode{name: "S", attrs: [][2]string{{"d", "777"}}}
					tl.kids = append(tl.kids[:i], append([]*tnode{ns}, tl.kids[i:]...)...)
				}
			}
		case "attr-change":
			nw.attrs = append(nw.attrs[:0:0], nw.attrs...)
			for i := range nw.attrs {
				if nw.attrs[i][0] == "type" {
					nw.attrs[i][1] = rapid.SampledFrom([]string{"dynamic", "static"}).Draw(t, "tv")
				}
			}
		case "attr-add":
			nw.attrs = append(nw.attrs, [2]string{"mediaPresentationDuration" + strconv.Itoa(e), "PT10S"})
		case "attr-remove":
			// any attribute but the addressing / mandatory ones, of any element above the S level (also the one sorting last)
			type cand struct {
				n *tnode
				i int
			}
			var cands []cand
			var walkT func(n *tnode)
			walkT = func(n *tnode) {
				switch n.name {
				case "MPD", "Period", "AdaptationSet", "Representation", "SegmentTemplate":
					for i, a := range n.attrs {
						if a[0] != "id" && a[0] != "xmlns" && a[0] != "publishTime" {
							cands = append(cands, cand{n, i})
						}
					}
				}
				for _, k := range n.kids {
					walkT(k)
				}
			}
			walkT(nw)
			if len(cands) > 0 {
				c := cands[rapid.IntRange(0, len(cands)-1).Draw(t, "rmattr")]
				c.n.attrs = append(c.n.attrs[:c.i:c.i], c.n.attrs[c.i+1:]...)
			}
		case "period-append":
			last := k0
			if len(ps) > 0 {
				last, _ = strconv.Atoi(ps[len(ps)-1].attrs[0][1][1:])
				last++
			}
			np := genPeriod(t, last, &asID)
			// insert after the last Period (before the trailing UTCTiming elements, if any are left)
			idx := 0
			for i, k := range nw.kids {
				if k.name == "Period" || k.name == "PatchLocation" {
					idx = i + 1
				}
			}
			nw.kids = append(nw.kids[:idx:idx], append([]*tnode{np}, nw.kids[idx:]...)...)
		case "period-drop-first":
			if len(ps) > 1 {
				for i, k := range nw.kids {
					if k == ps[0] {
						nw.kids = append(nw.kids[:i], nw.kids[i+1:]...)
						break
					}
				}
			}
		case "as-add":
			if len(ps) > 0 {
				p := ps[rapid.IntRange(0, len(ps)-1).Draw(t, "p")]
				asID++
				p.kids = append(p.kids, genAS(t, asID))
			}
		case "rep-add", "rep-remove":
			if len(ps) == 0 {
				continue
			}
			p := ps[rapid.IntRange(0, len(ps)-1).Draw(t, "p")]
			for _, as := range p.kids {
				if as.name != "AdaptationSet" {
					continue
				}
				nrep := 0
				for _, k := range as.kids {
					if k.name == "Representation" {
						nrep++
					}
				}
				if nrep > 1 && rapid.Bool().Draw(t, "remove") {
					as.kids = as.kids[:len(as.kids)-1]
				} else {
					as.kids = append(as.kids, &tnode{name: "Representation", attrs: [][2]string{{"id", fmt.Sprintf("x%d_%d", e, nrep)}, {"bandwidth", "5"}}})
				}
				break
			}
		case "role-change":
			// the second of two same-scheme descriptors changes its value or disappears
			var roles []*tnode
			var parents []*tnode
			var walkR func(n *tnode)
			walkR = func(n *tnode) {
				for _, k := range n.kids {
					if k.name == "Role" && len(k.attrs) == 3 && strings.HasSuffix(k.attrs[2][1], "b") {
						roles = append(roles, k)
						parents = append(parents, n)
					}
					walkR(k)
				}
			}
			walkR(nw)
			if len(roles) > 0 {
				i := rapid.IntRange(0, len(roles)-1).Draw(t, "whichrole")
				if rapid.Bool().Draw(t, "role-remove") {
					for j, k := range parents[i].kids {
						if k == roles[i] {
							parents[i].kids = append(parents[i].kids[:j:j], parents[i].kids[j+1:]...)
							break
						}
					}
				} else {
					roles[i].attrs[1][1] = "commentary" + strconv.Itoa(e)
				}
			}
		case "noid-remove":
			// an element without id (addressed by position among its same-named siblings) disappears, e.g. the PatchLocation
			// and UTCTiming of an MPD that turns static
			which := rapid.SampledFrom([]string{"UTCTiming", "UTCTiming", "PatchLocation"}).Draw(t, "noid")
			for i := len(nw.kids) - 1; i >= 0; i-- {
				if nw.kids[i].name == which {
					nw.kids = append(nw.kids[:i:i], nw.kids[i+1:]...)
					break
				}
			}
		case "noid-add":
			nw.kids = append(nw.kids, &tnode{name: "UTCTiming", attrs: [][2]string{{"schemeIdUri", "urn:mpeg:dash:utc:http-iso:2014:" + strconv.Itoa(e)}, {"value", "https://time.example/iso" + strconv.Itoa(e)}}}) // unique scheme: such elements are addressed by it
		case "leaf-text+attr":
			// a leaf element whose text changes (PatchLocation always does) gains or loses an attribute at the same time
			pl := nw.kids[0]
			if has := len(pl.attrs) > 1; has {
				pl.attrs = pl.attrs[:1]
			} else {
				pl.attrs = append(pl.attrs, [2]string{"serviceLocation", "s" + strconv.Itoa(e)})
			}
		case "leaf-text":
			for _, k := range nw.kids {
				if k.name == "UTCTiming" {
					for i := range k.attrs {
						if k.attrs[i][0] == "value" {
							k.attrs[i][1] = "https://time.example/?iso&ms" + strconv.Itoa(e)
						}
					}
				}
			}
		}
	}
	var bo, bn strings.Builder
	bo.WriteString("<?xml version=\"1.0\" encoding=\"UTF-8\"?>\n")
	bn.WriteString("<?xml version=\"1.0\" encoding=\"UTF-8\"?>\n")
	root.render(&bo, "")
	nw.render(&bn, "")
	return TreeCase{Old: strings.ReplaceAll(bo.String(), "&", "&amp;"), New: strings.ReplaceAll(bn.String(), "&", "&amp;")}
}

type tinfo struct {
	rejected bool
	ops      int
	both     bool
}

func checkTree(c TreeCase) (v *hx.Violation, inf tinfo) {
	defer func() {
		if p := recover(); p != nil {
			v = hx.V("diff-panic", "MPDDiff panicked: %v", p)
		}
	}()
	doc, _, err := patch.MPDDiff([]byte(c.Old), []byte(c.New))
	if err != nil {
		inf.rejected = true
		return nil, inf
	}
	doc.Indent(2)
	pb, err := doc.WriteToBytes()
	if err != nil {
		return hx.V("patch-serialise", "%v", err), inf
	}
	pd, err := xmlpatch.Parse(pb)
	if err != nil {
		return hx.V("patch-unparsable", "%v\n%s", err, pb), inf
	}
	d1, err1 := xmlpatch.Parse([]byte(c.Old))
	d2, err2 := xmlpatch.Parse([]byte(c.New))
	if err1 != nil || err2 != nil {
		return hx.V("harness", "%v %v", err1, err2), inf
	}
	adds, rems := false, false
	for _, op := range pd.Children {
		adds = adds || op.Name == "add"
		rems = rems || op.Name == "remove"
	}
	inf.both = adds && rems
	got, n, aerr := xmlpatch.Apply(d1, pd)
	inf.ops = n
	if aerr != nil {
		return hx.V("patch-not-applicable", "%v\npatch:\n%s", aerr, pb), inf
	}
	if got.Canon() != d2.Canon() {
		return hx.V("patched-differs", "old+patch differs from new: %s\npatch:\n%s", firstDiffLines(got.Canon(), d2.Canon()), pb), inf
	}
	return nil, inf
}

func TestC11Trees(t *testing.T) {
	run := hx.Start(t, "C11")
	defer run.Finish()
	if run.Replaying() {
		if run.ReplayTest() != t.Name() {
			return
		}
		var c TreeCase
		run.ReplayCase(&c)
		if v, _ := checkTree(c); v != nil {
			run.Fail(t, c, v)
		}
		return
	}
	rejected, total := 0, 0
	run.Rapid(t, 2, 4000, 30000, func(rt *rapid.T) {
		c := genTree(rt)
		v, inf := checkTree(c)
		total++
		cls := []string{"tree"}
		if inf.rejected {
			rejected++
			cls = append(cls, "tree:rejected-by-diff")
		}
		if inf.both {
			cls = append(cls, "tree:add+remove")
		}
		if inf.ops >= 2 || inf.both {
			run.NonTrivial(c)
		}
		run.Eval(cls...)
		if total%500 == 1 {
			run.Sample(map[string]any{"kind": "tree", "old_bytes": len(c.Old), "new_bytes": len(c.New), "ops": inf.ops, "new_head": head(c.New, 400)})
		}
		if v != nil {
			if v.Kind == "harness" {
				rt.Fatalf("HARNESS: %s", v.Msg)
			}
			run.Fail(rt, c, v)
		}
	})
	run.Note("tree_pairs_rejected_by_diff", rejected)
	if total > 100 && rejected*2 > total {
		t.Fatalf("HARNESS: MPDDiff rejects %d of %d generated pairs: generator needs fixing", rejected, total)
	}
}

func head(s string, n int) string {
	if len(s) > n {
		return s[:n]
	}
	return s
}
