// C12 — generated time subtitles show the right UTC second at the right media time.
package c12

import (
	"encoding/binary"
	"fmt"
	"regexp"
	"strconv"
	"strings"
	"testing"
	"time"

	"pgregory.net/rapid"
	"verifharness/internal/assetgen"
	"verifharness/internal/env"
	"verifharness/internal/gen"
	"verifharness/internal/hx"
	"verifharness/internal/ls"
	"verifharness/internal/mp4x"
	"verifharness/internal/mpdx"
	"verifharness/internal/refmodel"
)

type Case struct {
	Target env.Target   `json:"target"`
	Cfg    refmodel.Cfg `json:"cfg"`
	Kind   string       `json:"kind"` // stpp | wvtt
	Langs  []string     `json:"langs"`
	Lang   string       `json:"lang"`
	CueDur int          `json:"cue_dur_ms"` // 0 = default (900)
	Region int          `json:"region"`     // -1 = not given
	N      int64        `json:"n"`
	Regime string       `json:"regime"`
}

var wholeMSBundled = []string{"testpic_2s", "testpic_6s", "testpic_8s", "testpic_alt_seg_dur_stl", "bbb_hevc_ac3_8s", "WAVE/vectors/cfhd_sets/14.985_29.97_59.94/t1/2022-10-17"}

func wholeMS(e *env.Env) bool {
	for _, s := range e.Asset.Ref.Segs {
		if s.End*1000%e.Asset.Ref.Timescale != 0 {
			return false
		}
	}
	return true
}

func genCase(t *rapid.T) (Case, *env.Env) {
	// the subtitle track runs on a millisecond timescale: assets whose video boundaries are whole milliseconds
	tg := gen.Target(t, assetgen.Opts{Audio: []string{""}, Clocks: []assetgen.Clock{{1000, 40}, {25000, 1000}, {90000, 3600}, {30000, 1001}, {24000, 1001}, {12800, 512}}}, 45, wholeMSBundled)
	e, err := env.Get(tg)
	if err != nil {
		t.Fatalf("HARNESS: %v", err)
	}
	if !wholeMS(e) || e.Asset.Ref.ContentType != "video" {
		tg = env.Target{Asset: rapid.SampledFrom(wholeMSBundled).Draw(t, "fallback")}
		e, err = env.Get(tg)
		if err != nil {
			t.Fatalf("HARNESS: %v", err)
		}
	}
	segMS := int64(e.Asset.LoopMS) / int64(len(e.Asset.Ref.Segs))
	cfg := gen.Cfg(t, []string{"number", "time", "tlnr"}, segMS, false)
	cfg.TsbdS, cfg.HasTsbd = 60, false
	if tg.Layout != nil && tg.Layout.AvgSegMS() < 1000 {
		cfg.Extra = []string{"mup_1"}
	}
	c := Case{Target: tg, Cfg: cfg, Kind: rapid.SampledFrom([]string{"stpp", "wvtt"}).Draw(t, "kind"), Region: rapid.SampledFrom([]int{-1, 0, 1}).Draw(t, "region")}
	c.Langs = rapid.SampledFrom([][]string{{"en"}, {"en", "sv"}, {"sv", "en", "fi"}, {"de"}, {"pt-BR"}, {"pt", "pt-BR"}, {"zh-Hans", "en"}}).Draw(t, "langs")
	c.Lang = rapid.SampledFrom(c.Langs).Draw(t, "lang")
	c.CueDur = rapid.SampledFrom([]int{0, 0, 1, 10, 100, 500, 900, 999, 1000, 1001, 1500, 1800, 2500, 5000}).Draw(t, "cuedur")
	tl := refmodel.NewTimeline(e.Asset, e.Asset.Ref, cfg)
	c.N, c.Regime = gen.Index(t, tl, cfg.StartS)
	// a boundary of its own: the cue of the second in which the segment starts ends exactly at (or 1 ms around) the segment start
	if off := (cfg.StartS*1000 + tl.Start(c.N)*1000/tl.TS()) % 1000; off > 1 && rapid.IntRange(0, 3).Draw(t, "cue-ends-at-segment-start") == 0 {
		c.CueDur = int(off) + rapid.SampledFrom([]int{0, 0, -1, 1}).Draw(t, "cue-end-delta")
	}
	return c, e
}

type cue struct {
	begin, end int64 // media ms
	utcS       int64
	lang       string
	nr         int64
	zeroLen    bool
}

var pRe = regexp.MustCompile(`<p xml:id="([^"]*)" begin="(\d+):(\d\d):(\d\d)\.(\d\d\d)" end="(\d+):(\d\d):(\d\d)\.(\d\d\d)"><span style="s1">([^<]*)<br/>([^ <]*) # (\d+)</span></p>`)

func ttmlMS(h, m, s, ms string) int64 {
	a, _ := strconv.ParseInt(h, 10, 64)
	b, _ := strconv.ParseInt(m, 10, 64)
	c, _ := strconv.ParseInt(s, 10, 64)
	d, _ := strconv.ParseInt(ms, 10, 64)
	return a*3600000 + b*60000 + c*1000 + d
}

func parseUTC(s string) (int64, error) {
	tm, err := time.Parse(time.RFC3339, s)
	if err != nil {
		return 0, err
	}
	return tm.Unix(), nil
}

type info struct {
	cues     int
	offSec   bool
	longCue  bool
	emptyCue bool
}

func checkCase(c Case, e *env.Env) (*hx.Violation, info) {
	var inf info
	tl := refmodel.NewTimeline(e.Asset, e.Asset.Ref, c.Cfg)
	ts := tl.TS()
	parts := append(c.Cfg.Parts(), "timesubs"+c.Kind+"_"+strings.Join(c.Langs, ","))
	cueDur := int64(900)
	if c.CueDur > 0 {
		parts = append(parts, "timesubsdur_"+strconv.Itoa(c.CueDur))
		cueDur = int64(c.CueDur)
	}
	region := 0
	if c.Region >= 0 {
		parts = append(parts, "timesubsreg_"+strconv.Itoa(c.Region))
		region = c.Region
	}
	inf.longCue = cueDur > 1000
	kf := func(kind string) string {
		if inf.longCue {
			return "KF-C12-long-cue" // defect model: cue duration above one second (cues every ceil(dur) seconds, wrong second)
		}
		return kind
	}
	segStart := tl.Start(c.N) * 1000 / ts // whole ms by construction
	segEnd := tl.End(c.N) * 1000 / ts
	if segStart%1000 != 0 || segEnd%1000 != 0 {
		inf.offSec = true
	}
	repID := "time" + c.Kind + "-" + c.Lang
	var name string
	if c.Cfg.Type == "time" {
		name = fmt.Sprintf("%s/%d.m4s", repID, segStart)
	} else {
		name = fmt.Sprintf("%s/%d.m4s", repID, tl.Number(c.N))
	}
	now := gen.CeilDivU(tl.AvailU(c.N), ts) + 1
	url := ls.URL(parts, e.Asset.Path, name, now)
	r := e.Srv.Get(url)
	if r.Code != 200 {
		return hx.V("status", "%s -> %v", url, r), inf
	}
	seg, err := mp4x.Parse(r.Body, nil)
	if err != nil {
		return hx.V("unparsable", "%s: %v", url, err), inf
	}
	if int64(seg.Frags[0].Seq) != tl.Number(c.N) {
		return hx.V("number", "%s: sequence number %d, expected %d", url, seg.Frags[0].Seq, tl.Number(c.N)), inf
	}
	if int64(seg.Start()) != segStart {
		return hx.V("decode-time", "%s: tfdt %d ms, video segment starts at %d ms", url, seg.Start(), segStart), inf
	}
	samples := seg.AllSamples()
	// expected cues from the statement
	ast := c.Cfg.StartS * 1000
	utcStart, utcEnd := segStart+ast, segEnd+ast
	var cues []cue
	switch c.Kind {
	case "stpp":
		if len(samples) != 1 {
			return hx.V("stpp-samples", "%s: %d samples", url, len(samples)), inf
		}
		if int64(samples[0].Dur) != segEnd-segStart {
			return hx.V(kf("duration"), "%s: sample duration %d ms, video segment %d ms", url, samples[0].Dur, segEnd-segStart), inf
		}
		doc := string(samples[0].Data)
		if !strings.Contains(doc, fmt.Sprintf(`xml:lang="%s"`, c.Lang)) {
			return hx.V("stpp-lang", "%s: xml:lang is not %q", url, c.Lang), inf
		}
		if !strings.Contains(doc, fmt.Sprintf(`<div region="r%d">`, region)) {
			return hx.V("stpp-region", "%s: region r%d not used", url, region), inf
		}
		ms := pRe.FindAllStringSubmatch(doc, -1)
		if strings.Count(doc, "<p ") != len(ms) {
			return hx.V("stpp-cue-format", "%s: %d <p> elements, %d recognised", url, strings.Count(doc, "<p "), len(ms)), inf
		}
		for _, m := range ms {
			u, err := parseUTC(m[10])
			if err != nil {
				return hx.V("stpp-cue-format", "%s: cue text %q", url, m[10]), inf
			}
			nr, _ := strconv.ParseInt(m[12], 10, 64)
			cues = append(cues, cue{begin: ttmlMS(m[2], m[3], m[4], m[5]), end: ttmlMS(m[6], m[7], m[8], m[9]), utcS: u, lang: m[11], nr: nr})
		}
	case "wvtt":
		pos := segStart
		for i, s := range samples {
			if int64(s.DecodeTime) != pos {
				return hx.V(kf("wvtt-tiling"), "%s: sample %d at %d, expected %d (samples must tile the segment)", url, i, s.DecodeTime, pos), inf
			}
			pos += int64(s.Dur)
			if len(s.Data) == 8 && string(s.Data[4:8]) == "vtte" {
				continue
			}
			// vttc box with optional sttg and payl
			if len(s.Data) < 16 || string(s.Data[4:8]) != "vttc" || int(binary.BigEndian.Uint32(s.Data)) != len(s.Data) {
				return hx.V("wvtt-sample", "%s: sample %d is neither vtte nor vttc", url, i), inf
			}
			var text, settings string
			for p := 8; p+8 <= len(s.Data); {
				sz := int(binary.BigEndian.Uint32(s.Data[p:]))
				if sz < 8 || p+sz > len(s.Data) {
					return hx.V("wvtt-sample", "%s: sample %d malformed child box", url, i), inf
				}
				switch string(s.Data[p+4 : p+8]) {
				case "payl":
					text = string(s.Data[p+8 : p+sz])
				case "sttg":
					settings = string(s.Data[p+8 : p+sz])
				}
				p += sz
			}
			if (region == 1) != (settings == "line:2") {
				return hx.V("wvtt-region", "%s: region %d but cue settings %q", url, region, settings), inf
			}
			l1, l2, ok := strings.Cut(text, "\n")
			lang, nrs, ok2 := strings.Cut(l2, " # ")
			u, err := parseUTC(l1)
			if !ok || !ok2 || err != nil {
				return hx.V("wvtt-cue-format", "%s: cue text %q", url, text), inf
			}
			nr, _ := strconv.ParseInt(nrs, 10, 64)
			cues = append(cues, cue{begin: int64(s.DecodeTime), end: int64(s.DecodeTime) + int64(s.Dur), utcS: u, lang: lang, nr: nr})
		}
		if pos != segEnd {
			return hx.V(kf("wvtt-tiling"), "%s: samples end at %d ms, the segment at %d ms", url, pos, segEnd), inf
		}
	}
	inf.cues = len(cues)
	// cues: ordered, non-overlapping, inside the segment, right text
	for i, q := range cues {
		if q.lang != c.Lang || q.nr != tl.Number(c.N) {
			return hx.V("cue-text", "%s: cue %d shows language %q and number %d, expected %q and %d", url, i, q.lang, q.nr, c.Lang, tl.Number(c.N)), inf
		}
		if q.begin < segStart || q.end > segEnd || q.end < q.begin {
			return hx.V(kf("cue-outside-segment"), "%s: cue %d [%d,%d] ms, segment [%d,%d]", url, i, q.begin, q.end, segStart, segEnd), inf
		}
		if q.end == q.begin {
			return hx.V("cue-empty", "%s: cue %d for UTC second %d lasts 0 ms (begin = end = %d ms): a cue that is over when the segment starts is not shown in it", url, i, q.utcS, q.begin), inf
		}
		if i > 0 && q.begin < cues[i-1].end {
			return hx.V(kf("cues-overlap"), "%s: cue %d begins at %d before cue %d ends at %d", url, i, q.begin, i-1, cues[i-1].end), inf
		}
	}
	// one cue per UTC second that intersects the segment
	ci := 0
	for S := utcStart / 1000; S*1000 < utcEnd; S++ {
		begin := S * 1000
		if begin < utcStart {
			begin = utcStart
		}
		nextBegin := (S + 1) * 1000
		limit := utcEnd
		if nextBegin < limit {
			limit = nextBegin
		}
		intersects := S*1000+cueDur > utcStart // [S, S+cueDur) reaches into the segment
		if ci < len(cues) && cues[ci].utcS == S {
			q := cues[ci]
			ci++
			if q.begin+ast != begin {
				return hx.V(kf("cue-begin"), "%s: cue for second %d begins at media %d ms (UTC %d), expected UTC %d", url, S, q.begin, q.begin+ast, begin), inf
			}
			// both readings of "lasting the configured duration, clipped": end between min(S+dur, ...) and min(begin+dur, ...)
			lo, hi := S*1000+cueDur, begin+cueDur
			if lo > limit {
				lo = limit
			}
			if hi > limit {
				hi = limit
			}
			if lo < begin {
				lo = begin
			}
			if en := q.end + ast; en < lo || en > hi {
				return hx.V(kf("cue-end"), "%s: cue for second %d ends at UTC %d ms, expected within [%d,%d] (cue duration %d ms, segment UTC [%d,%d))", url, S, en, lo, hi, cueDur, utcStart, utcEnd), inf
			}
			if ci < len(cues) && cues[ci].utcS == S {
				return hx.V(kf("cue-duplicate"), "%s: two cues for second %d", url, S), inf
			}
			continue
		}
		if intersects {
			return hx.V(kf("cue-missing"), "%s: no cue for UTC second %d which intersects the segment UTC [%d,%d) ms (cues: %v)", url, S, utcStart, utcEnd, cues), inf
		}
		inf.emptyCue = true
	}
	if ci != len(cues) {
		return hx.V(kf("cue-unexpected"), "%s: cue %d shows UTC second %d which is not the next second of the segment UTC [%d,%d)", url, ci, cues[ci].utcS, utcStart, utcEnd), inf
	}
	// the MPD carries one text adaptation set per language that mirrors the video timeline in ms (declared segments are C02's)
	mr := e.Srv.Get(ls.URL(parts, e.Asset.Path, firstMPD(e), now))
	if mr.Code != 200 {
		return hx.V("mpd-status", "MPD -> %v", mr), inf
	}
	m, err := mpdx.Parse(mr.Body)
	if err != nil {
		return hx.V("mpd-unparsable", "%v", err), inf
	}
	found := 0
	var video *mpdx.AS
	for i := range m.Periods[0].AS {
		if m.Periods[0].AS[i].Kind() == "video" {
			video = &m.Periods[0].AS[i]
		}
	}
	for i := range m.Periods[0].AS {
		as := &m.Periods[0].AS[i]
		if len(as.Reps) == 0 || !strings.HasPrefix(as.Reps[0].ID, "time"+c.Kind+"-") {
			continue
		}
		found++
		if as.Kind() != "text" || as.Codecs != c.Kind || as.Tmpl == nil || as.Tmpl.TS() != 1000 {
			return hx.V("mpd-subs-set", "subtitle adaptation set %s: contentType %q codecs %q", as.Reps[0].ID, as.Kind(), as.Codecs), inf
		}
		if video != nil && video.Tmpl != nil && video.Tmpl.Timeline != nil {
			vd, _ := video.Tmpl.Expand()
			sd, err := as.Tmpl.Expand()
			if err != nil || len(vd) != len(sd) {
				return hx.V("mpd-subs-timeline", "subtitle timeline has %d entries, video %d (%v)", len(sd), len(vd), err), inf
			}
			vts := int64(video.Tmpl.TS())
			for k := range vd {
				if int64(sd[k].T) != int64(vd[k].T)*1000/vts || int64(sd[k].T+sd[k].D) != int64(vd[k].T+vd[k].D)*1000/vts {
					return hx.V("mpd-subs-timeline", "subtitle entry %d (t=%d,d=%d) does not mirror video (t=%d,d=%d)/%d in ms", k, sd[k].T, sd[k].D, vd[k].T, vd[k].D, vts), inf
				}
				if sd[k].Nr != vd[k].Nr {
					return hx.V("mpd-subs-number", "subtitle entry %d (t=%d) has number %d, the video entry it mirrors has number %d", k, sd[k].T, sd[k].Nr, vd[k].Nr), inf
				}
			}
		}
	}
	for i := range m.Periods[0].AS {
		as := &m.Periods[0].AS[i]
		if len(as.Reps) == 0 || !strings.HasPrefix(as.Reps[0].ID, "time"+c.Kind+"-") || video == nil || video.Tmpl == nil || video.Tmpl.Timeline != nil {
			continue
		}
		// $Number$ templates: same segment duration (in ms) and the same startNumber as the video template
		if video.Tmpl.Duration != nil {
			vd, vts := int64(*video.Tmpl.Duration), int64(video.Tmpl.TS())
			if as.Tmpl.Duration == nil || (vd*1000%vts == 0 && int64(*as.Tmpl.Duration) != vd*1000/vts) {
				got := int64(-1)
				if as.Tmpl.Duration != nil {
					got = int64(*as.Tmpl.Duration)
				}
				return hx.V("mpd-subs-duration", "subtitle template duration %d ms, video template %d/%d", got, vd, vts), inf
			}
		}
		vsn, ssn := int64(1), int64(1)
		if video.Tmpl.StartNumber != nil {
			vsn = int64(*video.Tmpl.StartNumber)
		}
		if as.Tmpl.StartNumber != nil {
			ssn = int64(*as.Tmpl.StartNumber)
		}
		if vsn != ssn {
			return hx.V("mpd-subs-startnumber", "subtitle startNumber %d, video %d", ssn, vsn), inf
		}
	}
	if found != len(c.Langs) {
		return hx.V("mpd-subs-set", "%d subtitle adaptation sets for %d languages", found, len(c.Langs)), inf
	}
	return nil, inf
}

func firstMPD(e *env.Env) string {
	if _, ok := e.Asset.MPDs["Manifest.mpd"]; ok {
		return "Manifest.mpd"
	}
	best := ""
	for n := range e.Asset.MPDs {
		if len(e.Asset.RepsOfType(n, "video")) == 0 {
			continue
		}
		if best == "" || n < best {
			best = n
		}
	}
	return best
}

func TestC12(t *testing.T) {
	run := hx.Start(t, "C12")
	defer run.Finish()
	if run.Replaying() {
		var c Case
		run.ReplayCase(&c)
		e, err := env.Get(c.Target)
		if err != nil {
			t.Fatalf("HARNESS: %v", err)
		}
		if v, _ := checkCase(c, e); v != nil {
			run.Fail(t, c, v)
		}
		return
	}
	run.Essential("kind:stpp", "kind:wvtt", "boundary-off-second", ">=2-cues", "start!=0")
	run.Rapid(t, 1, 1500, 12000, func(rt *rapid.T) {
		c, e := genCase(rt)
		v, inf := checkCase(c, e)
		cls := []string{"kind:" + c.Kind, "addr:" + c.Cfg.Type, "n:" + c.Regime}
		if inf.offSec {
			cls = append(cls, "boundary-off-second")
		}
		if inf.cues >= 2 {
			cls = append(cls, ">=2-cues")
		}
		if inf.longCue {
			cls = append(cls, "cue>1000ms")
		}
		if inf.emptyCue {
			cls = append(cls, "second-whose-cue-is-over")
		}
		if c.Cfg.StartS != 0 {
			cls = append(cls, "start!=0")
		}
		if inf.cues >= 2 || inf.offSec {
			run.NonTrivial(c)
		}
		run.Eval(cls...)
		run.Sample(map[string]any{"asset": c.Target.Name(), "kind": c.Kind, "lang": c.Lang, "langs": c.Langs, "cue_dur_ms": c.CueDur, "region": c.Region, "url_parts": c.Cfg.Parts(), "n": c.N, "cues": inf.cues})
		if v != nil {
			if v.Kind == "harness" {
				rt.Fatalf("HARNESS: %s", v.Msg)
			}
			run.Fail(rt, c, v)
		}
	})
}
