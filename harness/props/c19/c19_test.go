// C19 — the ingest receiver tolerates concurrent uploads (run under the race detector).
package c19

import (
	"bytes"
	"fmt"
	"os"
	"path/filepath"
	"sort"
	"strings"
	"sync"
	"testing"
	"time"

	rxapp "github.com/Dash-Industry-Forum/livesim2/cmd/cmaf-ingest-receiver/app"
	"pgregory.net/rapid"
	"verifharness/internal/hx"
	"verifharness/internal/mpdx"
	"verifharness/internal/rx"
)

type Track struct {
	Name string `json:"name"`
	Kind string `json:"kind"`
	// Ignore: the per-representation configuration marks the track as ignored: its uploads are answered 200 and leave no trace.
	Ignore bool `json:"ignore,omitempty"`
}

type Channel struct {
	Name   string  `json:"name"`
	Tracks []Track `json:"tracks"`
	Auth   bool    `json:"auth"`
	// Shifted: the uploaded decode times are 3 segment durations ahead of the sequence numbers, so the receiver decides on a
	// renumbering when the master track has delivered two segments. Which uploads precede that decision depends on the order,
	// so for such a channel only the order-independent facts are judged (every upload accepted, one channel object,
	// every track registered, no race).
	Shifted bool `json:"shifted,omitempty"`
	// Ignore: the channel configuration drops the channel (uploads answered 200, nothing registered or stored).
	Ignore bool `json:"ignore,omitempty"`
	// Unlisted: the channel does not appear in the configuration file (defaults apply, incl. the default credentials).
	Unlisted bool `json:"unlisted,omitempty"`
	// Intruders: uploads without / with wrong credentials arrive together with the legitimate ones (channels with credentials only):
	// each is answered 401 and changes nothing.
	Intruders bool `json:"intruders,omitempty"`
	// LateInit (>= 3 tracks): the last track's init segment is withheld from the init phase and arrives together with the second
	// media number of the other tracks - the moment the channel starts and writes its first MPD. Only the order-independent
	// facts are judged for such a channel.
	LateInit bool `json:"late_init,omitempty"`
	// Raw: the channel is configured to store uploads unprocessed (receiveNrRawSegments): no MPD; every upload is answered 200
	// and stored as <track>_init_<k> in arrival order per track
	Raw bool `json:"raw,omitempty"`
}

func (ch Channel) lateIdx() int {
	if ch.LateInit && len(ch.Tracks) >= 3 {
		return len(ch.Tracks) - 1
	}
	return -1
}

type Case struct {
	Channels []Channel `json:"channels"`
	M        int       `json:"segments"`
	Streams  bool      `json:"streams_urls"`
	RepCfg   bool      `json:"rep_config"`
	Repeats  int       `json:"repeats"`
	ReInit   bool      `json:"resend_inits,omitempty"`
	// DefaultAuth: the configuration carries default credentials, which apply to every channel without credentials of its own.
	DefaultAuth bool `json:"default_auth,omitempty"`
}

func (c Case) needsAuth(ch Channel) bool { return c.DefaultAuth || (ch.Auth && !ch.Unlisted) }

// live lists the tracks of a channel that the receiver is to register and store.
func live(ch Channel) []Track {
	var out []Track
	if ch.Ignore && !ch.Unlisted {
		return nil
	}
	for _, tr := range ch.Tracks {
		if !tr.Ignore || ch.Unlisted {
			out = append(out, tr)
		}
	}
	return out
}

func genCase(t *rapid.T) Case {
	c := Case{M: rapid.IntRange(2, 6).Draw(t, "M"), Streams: rapid.Bool().Draw(t, "streams"), RepCfg: rapid.Bool().Draw(t, "repcfg"), Repeats: rapid.IntRange(2, 6).Draw(t, "repeats"), ReInit: rapid.IntRange(0, 2).Draw(t, "reinit") == 0}
	c.DefaultAuth = rapid.IntRange(0, 3).Draw(t, "defaultauth") == 0
	nch := rapid.IntRange(1, 4).Draw(t, "nch")
	for ci := 0; ci < nch; ci++ {
		ch := Channel{Name: fmt.Sprintf("ch%d", ci), Auth: rapid.Bool().Draw(t, "auth"), Shifted: rapid.IntRange(0, 3).Draw(t, "shifted") == 0}
		ch.Ignore = rapid.IntRange(0, 7).Draw(t, "ch-ignore") == 0
		ch.Unlisted = rapid.IntRange(0, 5).Draw(t, "unlisted") == 0
		ch.Intruders = rapid.Bool().Draw(t, "intruders")
		ch.LateInit = rapid.IntRange(0, 3).Draw(t, "late-init") == 0
		ch.Raw = rapid.IntRange(0, 5).Draw(t, "raw") == 0
		if ch.Raw {
			ch.Shifted, ch.LateInit, ch.Unlisted = false, false, false
		}
		nt := rapid.IntRange(2, 8).Draw(t, "ntracks")
		for ti := 0; ti < nt; ti++ {
			kind := "video"
			switch {
			case ti == 0:
				kind = "video"
			case ti%3 == 1:
				kind = "audio"
			case ti%3 == 2:
				kind = "text"
			}
			ch.Tracks = append(ch.Tracks, Track{Name: fmt.Sprintf("%s-%d", kind, ti), Kind: kind, Ignore: ti > 0 && rapid.IntRange(0, 5).Draw(t, "tr-ignore") == 0})
		}
		c.Channels = append(c.Channels, ch)
	}
	return c
}

const durTicks = 100000 // 2 s in 50 kHz

func dur(kind string) uint32 {
	tk := rx.Kinds[kind]
	return uint32(uint64(durTicks) * uint64(tk.Timescale) / 50000)
}

// normalMPD reduces the timeline MPD to what must not depend on the order of arrival: per representation its
// adaptation-set kind, timescale, first number and the list of (t,d).
func normalMPD(path string) (map[string]string, error) {
	data, err := os.ReadFile(path)
	if err != nil {
		return nil, err
	}
	m, err := mpdx.Parse(data)
	if err != nil {
		return nil, err
	}
	out := map[string]string{}
	for _, as := range m.Periods[0].AS {
		decls, err := as.Tmpl.Expand()
		if err != nil {
			return nil, err
		}
		var sb strings.Builder
		fmt.Fprintf(&sb, "%s lang=%q ts=%d:", as.Kind(), as.Lang, as.Tmpl.TS())
		for _, d := range decls {
			fmt.Fprintf(&sb, " %d(%d,%d)", d.Nr, d.T, d.D)
		}
		for _, r := range as.Reps {
			// @bandwidth is left out: it is estimated once, from whatever segments each track has delivered when the master
			// track completes its second segment, so it legitimately depends on the order of arrival (observation O10)
			out[r.ID] = sb.String()
		}
	}
	return out, nil
}

func shiftOf(ch Channel) uint64 {
	if ch.Shifted {
		return 3
	}
	return 0
}

type upload struct {
	ch   Channel
	tr   Track
	seq  uint32
	body []byte
	init bool
}

func (c Case) config() *rxapp.Config {
	cfg := &rxapp.Config{}
	if c.DefaultAuth {
		cfg.DefaultUser, cfg.DefaultPswd = "user", "secret"
	}
	for _, ch := range c.Channels {
		if ch.Unlisted {
			continue
		}
		cc := rxapp.ChannelConfig{Name: ch.Name, TimeShiftBufferDepthS: 60, Ignore: ch.Ignore}
		if ch.Raw {
			cc.ReceiveNrRawSegments = 1000
		}
		if ch.Auth {
			cc.AuthUser, cc.AuthPswd = "user", "secret"
		}
		for _, tr := range ch.Tracks {
			switch {
			case c.RepCfg:
				cc.Reps = append(cc.Reps, rxapp.RepresentationConfig{Name: tr.Name, Language: "en", Bitrate: 12345, Ignore: tr.Ignore})
			case tr.Ignore:
				cc.Reps = append(cc.Reps, rxapp.RepresentationConfig{Name: tr.Name, Ignore: true})
			}
		}
		cfg.Channels = append(cfg.Channels, cc)
	}
	return cfg
}

func (c Case) urlFor(ch Channel, tr Track, name string) string {
	tk := rx.Kinds[tr.Kind]
	if c.Streams {
		return fmt.Sprintf("/%s/Streams(%s%s)", ch.Name, tr.Name, tk.Ext)
	}
	return fmt.Sprintf("/%s/%s/%s%s", ch.Name, tr.Name, name, tk.Ext)
}

func (c Case) hdr(ch Channel) map[string]string {
	if !c.needsAuth(ch) {
		return nil
	}
	return map[string]string{"Authorization": "Basic dXNlcjpzZWNyZXQ="} // user:secret
}

func runOnce(c Case, storage string, concurrent bool) (*hx.Violation, map[string]map[string]string) {
	_ = os.RemoveAll(storage)
	if err := os.MkdirAll(storage, 0o755); err != nil {
		return hx.V("harness", "%v", err), nil
	}
	r, err := rx.New(storage, 60, c.config())
	if err != nil {
		return hx.V("harness", "%v", err), nil
	}
	defer r.Cancel()
	var mu sync.Mutex
	var firstV *hx.Violation
	fail := func(v *hx.Violation) {
		mu.Lock()
		if firstV == nil {
			firstV = v
		}
		mu.Unlock()
	}
	tokens := map[string]map[string]bool{}
	var wg sync.WaitGroup
	start := make(chan struct{})
	do := func(f func()) {
		if !concurrent {
			f()
			return
		}
		wg.Add(1)
		go func() {
			defer wg.Done()
			<-start
			f()
		}()
	}
	// every upload is answered: a wait that does not end within 20 s is a deadlock between the handlers and the channel goroutine
	waitAll := func(what string) *hx.Violation {
		done := make(chan struct{})
		go func() { wg.Wait(); close(done) }()
		select {
		case <-done:
			return nil
		case <-time.After(20 * time.Second):
			return hx.V("upload-never-answered", "%s: at least one concurrent upload was not answered within 20 s", what)
		}
	}
	// per track: the bodies answered 200, in upload order (raw channels store them under a running index)
	var rawMu sync.Mutex
	rawSeq := map[string][][]byte{}
	noteRaw := func(ch Channel, tr Track, body []byte) {
		if ch.Raw {
			rawMu.Lock()
			rawSeq[ch.Name+"/"+tr.Name] = append(rawSeq[ch.Name+"/"+tr.Name], body)
			rawMu.Unlock()
		}
	}
	// phase 1: all first uploads (init segments) at once
	for _, ch := range c.Channels {
		for ti, tr := range ch.Tracks {
			if ti == ch.lateIdx() {
				continue
			}
			ch, tr := ch, tr
			do(func() {
				init, err := rx.Init(tr.Kind)
				if err != nil {
					fail(hx.V("harness", "%v", err))
					return
				}
				if code := r.Upload("PUT", c.urlFor(ch, tr, "init"), init, c.hdr(ch), true); code != 200 {
					fail(hx.V("init-refused", "init of %s/%s -> %d", ch.Name, tr.Name, code))
					return
				}
				noteRaw(ch, tr, init)
				if st, ok := r.R.VerifChannelState(ch.Name, false); ok {
					mu.Lock()
					if tokens[ch.Name] == nil {
						tokens[ch.Name] = map[string]bool{}
					}
					tokens[ch.Name][st.Token] = true
					mu.Unlock()
				}
			})
		}
	}
	intruder := func(ch Channel, what, path string, body []byte, hdr map[string]string) {
		do(func() {
			if code := r.Upload("PUT", path, body, hdr, true); code != 401 {
				fail(hx.V("unauthorised-accepted", "channel %s requires credentials: %s -> %d, expected 401", ch.Name, what, code))
			}
		})
	}
	wrongPswd := map[string]string{"Authorization": "Basic dXNlcjp3cm9uZw=="} // user:wrong
	for _, ch := range c.Channels {
		if !ch.Intruders || !c.needsAuth(ch) || (ch.Ignore && !ch.Unlisted) {
			continue
		}
		init, _ := rx.Init("video")
		intruder(ch, "init of a further track with a wrong password", c.urlFor(ch, Track{Name: "ghost-9", Kind: "video"}, "init"), init, wrongPswd)
		intruder(ch, "init of track 0 without credentials", c.urlFor(ch, ch.Tracks[0], "init"), init, nil)
	}
	if concurrent {
		close(start)
		if v := waitAll("init phase"); v != nil {
			return v, nil
		}
	}
	if firstV != nil {
		return firstV, nil
	}
	// exactly one channel object per name, every track registered
	for _, ch := range c.Channels {
		st, ok := r.R.VerifChannelState(ch.Name, false)
		if !ok {
			return hx.V("channel-missing", "channel %s does not exist after the init uploads", ch.Name), nil
		}
		if len(tokens[ch.Name]) > 1 || !tokens[ch.Name][st.Token] {
			return hx.V("channel-created-twice", "channel %s: uploads saw %d different channel objects", ch.Name, len(tokens[ch.Name])+1), nil
		}
		var want []string
		for _, tr := range live(ch) {
			if li := ch.lateIdx(); li >= 0 && tr.Name == ch.Tracks[li].Name {
				continue
			}
			want = append(want, tr.Name)
		}
		sort.Strings(want)
		// in every sequential order the master track is the first registered video track
		isVideo := ch.Raw // (a raw channel does not look into the uploads: no master track)
		for _, tr := range live(ch) {
			if tr.Name == st.MasterTrack && tr.Kind == "video" {
				isVideo = true
			}
		}
		if len(want) == 0 {
			if len(st.Tracks) != 0 || st.MasterTrack != "" {
				return hx.V("ignored-channel-registered", "channel %s is configured to be ignored, yet tracks %v (master %q) are registered", ch.Name, st.Tracks, st.MasterTrack), nil
			}
			continue
		}
		if !isVideo {
			return hx.V("master-track-not-video", "channel %s: master track %q although the channel has video tracks (no sequential order of the registrations gives that)", ch.Name, st.MasterTrack), nil
		}
		if strings.Join(st.Tracks, ",") != strings.Join(want, ",") {
			return hx.V("track-not-registered", "channel %s: registered tracks %v, uploaded %v", ch.Name, st.Tracks, want), nil
		}
	}
	// phase 2: media, tracks concurrently, in order within a track (as the sender does: one segment number at a time)
	bodies := map[string][]byte{}
	for k := 0; k < c.M; k++ {
		start = make(chan struct{})
		for _, ch := range c.Channels {
			for ti, tr := range ch.Tracks {
				ch, tr, ti := ch, tr, ti
				seq := uint32(50 + k)
				d := dur(tr.Kind)
				body, err := rx.MediaSeg(tr.Kind, seq, (uint64(seq)+shiftOf(ch))*uint64(d), d, byte(ti+1), true)
				if err != nil {
					return hx.V("harness", "%v", err), nil
				}
				if ti == ch.lateIdx() {
					if k == 1 || (c.M == 1 && k == 0) {
						// the late track's init arrives while the other tracks deliver the number that starts the channel
						do(func() {
							init, _ := rx.Init(tr.Kind)
							if code := r.Upload("PUT", c.urlFor(ch, tr, "init"), init, c.hdr(ch), true); code != 200 {
								fail(hx.V("init-refused", "late init of %s/%s -> %d", ch.Name, tr.Name, code))
							}
						})
					}
					if k < 2 {
						continue
					}
				}
				bodies[fmt.Sprintf("%s/%s/%d", ch.Name, tr.Name, seq)] = body
				do(func() {
					if code := r.Upload("PUT", c.urlFor(ch, tr, fmt.Sprint(seq)), body, c.hdr(ch), true); code != 200 {
						fail(hx.V("upload-refused", "%s/%s seq %d -> %d", ch.Name, tr.Name, seq, code))
						return
					}
					noteRaw(ch, tr, body)
				})
				if ti == 0 && ch.Intruders && c.needsAuth(ch) && !(ch.Ignore && !ch.Unlisted) {
					// the same number for the same track, other content, without / with wrong credentials
					forged, err := rx.MediaSeg(tr.Kind, seq, (uint64(seq)+shiftOf(ch))*uint64(d), d, 0xEE, true)
					if err != nil {
						return hx.V("harness", "%v", err), nil
					}
					hdr := wrongPswd
					if k%2 == 1 {
						hdr = nil
					}
					intruder(ch, fmt.Sprintf("media %d of track 0 with bad credentials", seq), c.urlFor(ch, tr, fmt.Sprint(seq)), forged, hdr)
				}
			}
		}
		if concurrent {
			close(start)
			if v := waitAll(fmt.Sprintf("media number %d", 50+k)); v != nil {
				return v, nil
			}
		}
	}
	if firstV != nil {
		return firstV, nil
	}
	settle := uint32(50 + c.M)
	if c.ReInit {
		// phase 3: on the started channels every track uploads its next number while the init segments of the first two tracks
		// arrive again (a sender that reconnects)
		start = make(chan struct{})
		for _, ch := range c.Channels {
			for ti, tr := range ch.Tracks {
				ch, tr, ti := ch, tr, ti
				d := dur(tr.Kind)
				body, err := rx.MediaSeg(tr.Kind, settle, (uint64(settle)+shiftOf(ch))*uint64(d), d, byte(ti+1), true)
				if err != nil {
					return hx.V("harness", "%v", err), nil
				}
				if !ch.Shifted {
					bodies[fmt.Sprintf("%s/%s/%d", ch.Name, tr.Name, settle)] = body
				}
				do(func() {
					if code := r.Upload("PUT", c.urlFor(ch, tr, fmt.Sprint(settle)), body, c.hdr(ch), true); code != 200 {
						fail(hx.V("upload-refused", "%s/%s seq %d (during re-sent inits) -> %d", ch.Name, tr.Name, settle, code))
						return
					}
					noteRaw(ch, tr, body)
				})
				if ti < 2 && !ch.Raw { // (a raw channel numbers the uploads of a track as they come: one at a time per track)
					do(func() {
						init, _ := rx.Init(tr.Kind)
						if code := r.Upload("PUT", c.urlFor(ch, tr, "init"), init, c.hdr(ch), true); code != 200 {
							fail(hx.V("init-refused", "re-sent init of %s/%s -> %d", ch.Name, tr.Name, code))
						}
					})
				}
			}
		}
		if concurrent {
			close(start)
			if v := waitAll("re-sent inits with media"); v != nil {
				return v, nil
			}
		}
		if firstV != nil {
			return firstV, nil
		}
		settle++
	}
	// settling step: one more segment number on every track, sequentially with the master track first. Whether the
	// timeline MPD was already written during phase 2 depends on which track's report reached the channel first (any
	// sequential order is a legal outcome); after this step every order must have converged to the same MPD.
	for _, ch := range c.Channels {
		for ti, tr := range ch.Tracks {
			seq := settle
			d := dur(tr.Kind)
			body, err := rx.MediaSeg(tr.Kind, seq, (uint64(seq)+shiftOf(ch))*uint64(d), d, byte(ti+1), true)
			if err != nil {
				return hx.V("harness", "%v", err), nil
			}
			if code := r.Upload("PUT", c.urlFor(ch, tr, fmt.Sprint(seq)), body, c.hdr(ch), true); code != 200 {
				return hx.V("upload-refused", "settling upload %s/%s seq %d -> %d", ch.Name, tr.Name, seq, code), nil
			}
			noteRaw(ch, tr, body)
			r.R.VerifQuiesce(ch.Name)
		}
	}
	mpds := map[string]map[string]string{}
	for _, ch := range c.Channels {
		r.R.VerifQuiesce(ch.Name)
		chDir := filepath.Join(storage, ch.Name)
		if ch.Raw && !(ch.Ignore && !ch.Unlisted) {
			for _, tr := range live(ch) {
				for i, want := range rawSeq[ch.Name+"/"+tr.Name] {
					p := filepath.Join(chDir, tr.Name, fmt.Sprintf("%s_init_%d%s", tr.Name, i, rx.Kinds[tr.Kind].Ext))
					got, err := os.ReadFile(p)
					if err != nil {
						return hx.V("upload-lost", "raw channel %s: upload %d of track %s was answered 200 but is not stored: %v", ch.Name, i, tr.Name, err), nil
					}
					if !bytes.Equal(got, want) {
						return hx.V("upload-misattributed", "raw channel %s: %s does not hold the bytes of upload %d of track %s", ch.Name, p, i, tr.Name), nil
					}
				}
			}
			continue
		}
		if ch.lateIdx() >= 0 && len(live(ch)) > 0 {
			st, _ := r.R.VerifChannelState(ch.Name, false)
			var want []string
			for _, tr := range live(ch) {
				want = append(want, tr.Name)
			}
			sort.Strings(want)
			if strings.Join(st.Tracks, ",") != strings.Join(want, ",") {
				return hx.V("track-not-registered", "channel %s (one init arriving while the channel starts): registered tracks %v, uploaded %v", ch.Name, st.Tracks, want), nil
			}
			continue
		}
		if ch.Shifted {
			continue
		}
		if len(live(ch)) == 0 {
			// an ignored channel keeps nothing
			n := 0
			_ = filepath.Walk(chDir, func(_ string, fi os.FileInfo, err error) error {
				if err == nil && !fi.IsDir() {
					n++
				}
				return nil
			})
			if n != 0 {
				return hx.V("ignored-channel-stored", "channel %s is configured to be ignored, yet %d files were stored under it", ch.Name, n), nil
			}
			continue
		}
		for _, tr := range append([]Track{{Name: "ghost-9"}}, ch.Tracks...) {
			if tr.Name != "ghost-9" && (!tr.Ignore || ch.Unlisted) {
				continue
			}
			if _, err := os.Stat(filepath.Join(chDir, tr.Name)); err == nil {
				return hx.V("ignored-track-stored", "channel %s: a directory exists for track %s, whose uploads were to be dropped (ignored by configuration, or never authorised)", ch.Name, tr.Name), nil
			}
		}
		// every accepted upload stored under its own track with its own bytes
		for _, tr := range live(ch) {
			tk := rx.Kinds[tr.Kind]
			for k := 0; k < c.M; k++ {
				seq := 50 + k
				p := filepath.Join(storage, ch.Name, tr.Name, fmt.Sprintf("%d%s", seq, tk.Ext))
				got, err := os.ReadFile(p)
				if err != nil {
					return hx.V("upload-lost", "%s/%s seq %d was answered 200 but is not stored: %v", ch.Name, tr.Name, seq, err), nil
				}
				if tr.Kind != "text" && !bytes.Equal(got, bodies[fmt.Sprintf("%s/%s/%d", ch.Name, tr.Name, seq)]) {
					return hx.V("upload-misattributed", "%s/%s seq %d: stored bytes are not the uploaded ones", ch.Name, tr.Name, seq), nil
				}
			}
		}
		nm, err := normalMPD(filepath.Join(storage, ch.Name, "manifest_timeline_nr.mpd"))
		if err != nil {
			return hx.V("final-mpd", "channel %s: %v", ch.Name, err), nil
		}
		for _, tr := range live(ch) {
			if _, ok := nm[tr.Name]; !ok {
				return hx.V("final-mpd", "channel %s: track %s missing from the final MPD", ch.Name, tr.Name), nil
			}
		}
		if len(nm) != len(live(ch)) {
			return hx.V("final-mpd-extra-track", "channel %s: the final MPD lists %d representations, %d tracks were accepted", ch.Name, len(nm), len(live(ch))), nil
		}
		mpds[ch.Name] = nm
	}
	return nil, mpds
}

func checkCase(c Case, dir string) *hx.Violation {
	// reference: the same uploads in a sequential round-robin order
	v, ref := runOnce(c, filepath.Join(dir, "seq"), false)
	if v != nil {
		if v.Kind != "harness" {
			v.Msg = "sequential reference run: " + v.Msg
		}
		return v
	}
	for rep := 0; rep < c.Repeats; rep++ {
		v, got := runOnce(c, filepath.Join(dir, "conc"), true)
		if v != nil {
			return v
		}
		for ch, nm := range ref {
			for tr, want := range nm {
				if got[ch][tr] != want {
					return hx.V("final-mpd-differs", "channel %s track %s: concurrent run lists %q, the sequential order of the same uploads lists %q", ch, tr, got[ch][tr], want)
				}
			}
		}
	}
	return nil
}

func TestC19(t *testing.T) {
	run := hx.Start(t, "C19")
	defer run.Finish()
	dir := t.TempDir()
	if run.Replaying() {
		var c Case
		run.ReplayCase(&c)
		if v := checkCase(c, dir); v != nil {
			run.Fail(t, c, v)
		}
		return
	}
	run.Rapid(t, 1, 25, 150, func(rt *rapid.T) {
		c := genCase(rt)
		run.Journal(c)
		v := checkCase(c, dir)
		nt := 0
		for _, ch := range c.Channels {
			nt += len(ch.Tracks)
		}
		cls := []string{fmt.Sprintf("channels:%d", len(c.Channels))}
		if c.RepCfg {
			cls = append(cls, "rep-config")
		}
		for _, ch := range c.Channels {
			if c.needsAuth(ch) {
				cls = append(cls, "auth")
				break
			}
		}
		for _, ch := range c.Channels {
			if ch.Shifted {
				cls = append(cls, "shifted-channel")
				break
			}
		}
		seen := map[string]bool{}
		for _, ch := range c.Channels {
			if ch.Ignore && !ch.Unlisted {
				seen["ignored-channel"] = true
			} else if len(live(ch)) < len(ch.Tracks) {
				seen["ignored-track"] = true
			}
			if ch.Unlisted {
				seen["unlisted-channel"] = true
			}
			if ch.lateIdx() >= 0 {
				seen["init-while-channel-starts"] = true
			}
			if ch.Raw {
				seen["raw-channel"] = true
			}
			if ch.Intruders && c.needsAuth(ch) && !(ch.Ignore && !ch.Unlisted) {
				seen["unauthorised-uploads"] = true
			}
		}
		if c.DefaultAuth {
			seen["default-credentials"] = true
		}
		for _, k := range []string{"ignored-channel", "ignored-track", "unlisted-channel", "unauthorised-uploads", "default-credentials", "init-while-channel-starts", "raw-channel"} {
			if seen[k] {
				cls = append(cls, k)
			}
		}
		run.NonTrivial(c)
		run.Eval(cls...)
		run.Note("concurrent_runs", c.Repeats)
		run.Sample(map[string]any{"channels": len(c.Channels), "tracks_total": nt, "segments_per_track": c.M, "streams_urls": c.Streams, "repeats": c.Repeats})
		if v != nil {
			if v.Kind == "harness" {
				rt.Fatalf("HARNESS: %s", v.Msg)
			}
			run.Fail(rt, c, v)
		}
	})
}

// TestC19InitStress repeats the narrowest interleaving many times: on a channel that already has several tracks, a video
// and an audio track upload their first (init) segment at the same instant. In every sequential order the master track is
// the video track and both tracks are registered on the one channel object.
func TestC19InitStress(t *testing.T) {
	run := hx.Start(t, "C19")
	defer run.Finish()
	if run.Replaying() {
		return
	}
	rounds := run.Pick(500, 6000)
	dir := t.TempDir()
	for round := 0; round < rounds; round++ {
		storage := filepath.Join(dir, fmt.Sprintf("r%d", round%4))
		_ = os.RemoveAll(storage)
		_ = os.MkdirAll(storage, 0o755)
		r, err := rx.New(storage, 60, &rxapp.Config{})
		if err != nil {
			t.Fatalf("HARNESS: %v", err)
		}
		nText := round % 7
		for i := 0; i < nText; i++ {
			init, _ := rx.Init("text")
			if code := r.Upload("PUT", fmt.Sprintf("/ch/text-%d/init.cmft", i), init, nil, true); code != 200 {
				t.Fatalf("HARNESS: text init -> %d", code)
			}
		}
		var wg sync.WaitGroup
		start := make(chan struct{})
		codes := make([]int, 2)
		for k, tr := range []Track{{Name: "video-a", Kind: "video"}, {Name: "audio-b", Kind: "audio"}} {
			k, tr := k, tr
			init, _ := rx.Init(tr.Kind)
			wg.Add(1)
			go func() {
				defer wg.Done()
				<-start
				codes[k] = r.Upload("PUT", fmt.Sprintf("/ch/%s/init%s", tr.Name, rx.Kinds[tr.Kind].Ext), init, nil, true)
			}()
		}
		close(start)
		wg.Wait()
		st, ok := r.R.VerifChannelState("ch", false)
		r.Cancel()
		run.Eval("init-stress")
		if round < 3 {
			run.NonTrivial(fmt.Sprint("init-stress", round))
		}
		c := map[string]any{"kind": "init-stress", "round": round, "text_tracks_before": nText}
		if !ok || codes[0] != 200 || codes[1] != 200 {
			run.Fail(t, c, hx.V("init-refused", "round %d: init uploads -> %v, channel exists: %v", round, codes, ok))
		}
		if st.MasterTrack != "video-a" {
			run.Fail(t, c, hx.V("master-track-not-video", "round %d: master track %q after a video and an audio track registered concurrently (%d text tracks before)", round, st.MasterTrack, nText))
		}
		if len(st.Tracks) != nText+2 {
			run.Fail(t, c, hx.V("track-not-registered", "round %d: %d tracks registered, expected %d", round, len(st.Tracks), nText+2))
		}
	}
}
