// C07 — livesim2 responses are a pure function of (URL, time) and race-free.
package c07

import (
	"bytes"
	"crypto/sha256"
	"encoding/hex"
	"encoding/json"
	"fmt"
	"io"
	"net/http"
	"net/http/httptest"
	"os"
	"sort"
	"strings"
	"sync"
	"testing"
	"time"

	"github.com/Dash-Industry-Forum/livesim2/cmd/livesim2/app"
	"pgregory.net/rapid"
	"verifharness/internal/assetgen"
	"verifharness/internal/env"
	"verifharness/internal/gen"
	"verifharness/internal/hx"
	"verifharness/internal/ls"
	"verifharness/internal/refmodel"
)

type Req struct {
	Method string `json:"m"`
	URL    string `json:"url"`
	Body   string `json:"body,omitempty"`
	// API requests take part in the mix (for the race detector) but their responses carry session ids
	// that depend on the history by design; they are not compared.
	API bool `json:"api,omitempty"`
}

type Case struct {
	Target   env.Target `json:"target"`
	Reqs     []Req      `json:"reqs"`
	Perm     []int      `json:"perm"`               // order used on the long-running server
	Workers  int        `json:"workers"`            // goroutines of the concurrent phase
	Rounds   int        `json:"rounds"`             // repetitions of the multiset in the concurrent phase
	Siblings int        `json:"siblings,omitempty"` // number of sibling requests (same URL, one option exchanged)
}

var sink = sync.OnceValue(func() *httptest.Server {
	return httptest.NewServer(http.HandlerFunc(func(w http.ResponseWriter, r *http.Request) {
		_, _ = io.Copy(io.Discard, r.Body)
		w.WriteHeader(200)
	}))
})

// option pool: every entry is a valid URL option; combinations may be rejected (400), which is a response like any other
var optPool = []string{"segtimeline_1", "segtimelinenr_1", "tsbd_20", "tsbd_300", "mup_2", "ato_0.5", "ato_inf", "snr_7", "start_600", "periods_60", "periods_30/continuous_1",
	"scte35_1", "scte35_3", "utc_direct-ntp", "utc_httpiso-head", "ltgt_2500", "spd_6", "sidx_1", "timesubsstpp_en,sv", "timesubswvtt_en", "timesubsstpp_en/timesubsdur_400/timesubsreg_1",
	"eccp_cbcs", "eccp_cenc", "drm_EZDRM-1-key-cbcs-test", "drm_EZDRM-2-keys-cbcs-test", "patch_60", "annexI_a=1,b=2", "statuscode_[{cycle:30,rsq:1,code:404}]", "traffic_u10d20",
	"ato_1/chunkdur_0.5", "segtimelineloss_1", "timeoffset_1.5", "stop_100000000", "stop_1800", "stop_1800", "stop_1690000000", "tfdt_32/start_1600000000", "xlink_60/periods_60", "etp_60/periods_60", "insertad_1/periods_60", "mup_1/startrel_-20/stoprel_20"}

var siblingOpts = [][2]string{{"drm_EZDRM-1-key-cbcs-test", "drm_EZDRM-2-keys-cbcs-test"}, {"eccp_cbcs", "eccp_cenc"}, {"eccp_cbcs", "drm_EZDRM-1-key-cbcs-test"},
	{"segtimeline_1", "segtimelinenr_1"}, {"timesubsstpp_en,sv", "timesubsstpp_sv,en"}, {"scte35_1", "scte35_3"}, {"tsbd_20", "tsbd_300"}, {"snr_7", "snr_8"},
	{"start_600", "start_602"}, {"timesubsdur_400", "timesubsdur_900"}, {"periods_60", "periods_30"}, {"ato_0.5", "ato_1"}, {"timeoffset_1.5", "timeoffset_-1.5"}}

func genCase(t *rapid.T) (Case, *env.Env) {
	tg := gen.Target(t, assetgen.Opts{Audio: []string{"", "aac"}, MinFrames: 25, MaxFrames: 100, AllowText: true, Forms: []string{"timeline", "number"}}, 75,
		[]string{"testpic_2s", "testpic_2s", "testpic_2s", "testpic_8s", "testpic_6s", "bbb_hevc_ac3_8s", "testpic_alt_seg_dur_stl", "WAVE/vectors/cfhd_sets/14.985_29.97_59.94/t1/2022-10-17"})
	e, err := env.Get(tg)
	if err != nil {
		t.Fatalf("HARNESS: %v", err)
	}
	a := e.Asset
	var mpds []string
	for n := range a.MPDs {
		mpds = append(mpds, n)
	}
	sort.Strings(mpds)
	reps := a.RepIDs()
	sort.Strings(reps)
	segMS := int64(a.LoopMS) / int64(len(a.Ref.Segs))
	// a small pool of instants and option sets so that the same (URL, instant) recurs
	var nows []int64
	for i := rapid.IntRange(1, 3).Draw(t, "ninst"); i > 0; i-- {
		base := rapid.SampledFrom([]int64{30_000, 3_600_000, 1_700_000_000_000, 1_650_000_123_000}).Draw(t, "base")
		nows = append(nows, base+int64(rapid.IntRange(0, int(3*segMS)).Draw(t, "off")))
	}
	var optsets [][]string
	for i := rapid.IntRange(1, 3).Draw(t, "nopts"); i > 0; i-- {
		var ps []string
		seen := map[string]bool{}
		for j := rapid.IntRange(0, 3).Draw(t, "nparts"); j > 0; j-- {
			o := rapid.SampledFrom(optPool).Draw(t, "opt")
			k := o[:strings.IndexAny(o, "_")]
			if !seen[k] {
				seen[k] = true
				ps = append(ps, strings.Split(o, "/")...)
			}
		}
		if !seen["eccp"] && !seen["drm"] && rapid.IntRange(0, 3).Draw(t, "drm?") == 0 {
			ps = append(ps, rapid.SampledFrom([]string{"eccp_cbcs", "eccp_cenc", "drm_EZDRM-1-key-cbcs-test", "drm_EZDRM-2-keys-cbcs-test"}).Draw(t, "drmopt"))
		}
		optsets = append(optsets, ps)
	}
	c := Case{Target: tg}
	n := rapid.IntRange(6, 30).Draw(t, "nreqs")
	for i := 0; i < n; i++ {
		now := rapid.SampledFrom(nows).Draw(t, "now")
		parts := rapid.SampledFrom(optsets).Draw(t, "parts")
		chunked := false
		ato := int64(0)
		cfg := refmodel.DefaultCfg()
		for _, p := range parts {
			switch {
			case p == "segtimeline_1":
				cfg.Type = "time"
			case p == "segtimelinenr_1":
				cfg.Type = "tlnr"
			case p == "snr_7":
				cfg.Snr, cfg.HasSnr = 7, true
			case p == "start_600":
				cfg.StartS, cfg.HasStart = 600, true
			case strings.HasPrefix(p, "chunkdur"):
				chunked = true
			case p == "ato_0.5":
				ato = 500
			}
		}
		_ = ato
		kind := rapid.SampledFrom([]string{"mpd", "mpd", "init", "media", "media", "media", "media", "timesubs", "patch", "page", "api"}).Draw(t, "kind")
		var r Req
		r.Method = "GET"
		switch kind {
		case "mpd":
			r.URL = ls.URL(parts, a.Path, rapid.SampledFrom(mpds).Draw(t, "mpd"), now)
		case "init":
			rep := a.Reps[rapid.SampledFrom(reps).Draw(t, "rep")]
			r.URL = ls.URL(parts, a.Path, rep.InitURI, now)
		case "media":
			rep := a.Reps[rapid.SampledFrom(reps).Draw(t, "rep")]
			tl := refmodel.NewTimeline(a, a.Ref, cfg)
			last, _ := tl.LastAvailable(now)
			lo := int64(-12)
			hi := int64(2)
			if chunked {
				hi = -1 // an unfinished chunked segment is delivered in real time
			}
			k := last + int64(rapid.IntRange(int(lo), int(hi)).Draw(t, "dn"))
			if k < 0 {
				k = 0
			}
			r.URL = ls.URL(parts, a.Path, refmodel.NewTimeline(a, rep, cfg).SegName(rep, k), now)
		case "timesubs":
			tl := refmodel.NewTimeline(a, a.Ref, cfg)
			last, _ := tl.LastAvailable(now)
			k := last - int64(rapid.IntRange(0, 5).Draw(t, "dn"))
			if k < 0 {
				k = 0
			}
			pfx := rapid.SampledFrom([]string{"timestpp-en", "timestpp-sv", "timewvtt-en"}).Draw(t, "subsrep")
			f := fmt.Sprintf("%s/%d.m4s", pfx, tl.Number(k))
			if cfg.Type == "time" {
				f = fmt.Sprintf("%s/%d.m4s", pfx, tl.Start(k)*1000/tl.TS())
			}
			if rapid.IntRange(0, 4).Draw(t, "subsinit") == 0 {
				f = pfx + "/init.mp4"
			}
			r.URL = ls.URL(parts, a.Path, f, now)
		case "patch":
			pt := time.UnixMilli(now - int64(rapid.IntRange(1, 30).Draw(t, "ago"))*1000).UTC().Format("2006-01-02T15:04:05Z")
			u := ls.URL(append([]string{"patch_60"}, parts...), a.Path, rapid.SampledFrom(mpds).Draw(t, "mpd"), now)
			u = strings.Replace(u, "/livesim2/", "/patch/livesim2/", 1)
			u = strings.Replace(u, ".mpd?", ".mpp?publishTime="+pt+"&", 1)
			r.URL = u
		case "page":
			r.URL = rapid.SampledFrom([]string{"/assets", "/vod/" + a.Path + "/" + mpds[0], "/urlgen", "/",
				"/urlgen/create?asset=" + a.Path + "&mpd=" + mpds[0] + "&stl=tlt&tsbd=30", "/static/favicon.ico"}).Draw(t, "page")
		case "api":
			r.API = true
			switch rapid.SampledFrom([]string{"create", "create", "info", "step", "delete", "list"}).Draw(t, "api") {
			case "create":
				b, _ := json.Marshal(map[string]any{"destRoot": "SINK", "destName": "c07", "livesimURL": strings.SplitN(ls.URL(parts, a.Path, mpds[0], now), "?", 2)[0], "testNowMS": now})
				r.Method, r.URL, r.Body = "POST", "/api/cmaf-ingests", string(b)
			case "info":
				r.URL = fmt.Sprintf("/api/cmaf-ingests/%d", rapid.IntRange(1, 6).Draw(t, "id"))
			case "step":
				r.URL = fmt.Sprintf("/api/cmaf-ingests/%d/step", rapid.IntRange(1, 6).Draw(t, "id"))
			case "delete":
				r.Method, r.URL = "DELETE", fmt.Sprintf("/api/cmaf-ingests/%d", rapid.IntRange(1, 6).Draw(t, "id"))
			case "list":
				r.URL = "/api/assets"
			}
		}
		c.Reqs = append(c.Reqs, r)
		// a sibling request: the same URL with one option exchanged for a closely related one (other DRM package of the same
		// scheme, other scheme, other timeline flavour ...). An answer that is cached under an incomplete key shows up as a
		// dependence on which of the two was served first.
		if !r.API && (rapid.IntRange(0, 2).Draw(t, "sibling?") == 0 || strings.Contains(r.URL, "/drm_") || strings.Contains(r.URL, "/eccp_") || strings.Contains(r.URL, "/stop_1800/")) {
			var cands []string
			for _, sw := range siblingOpts {
				for k := 0; k < 2; k++ {
					if strings.Contains(r.URL, "/"+sw[k]+"/") {
						cands = append(cands, strings.Replace(r.URL, "/"+sw[k]+"/", "/"+sw[1-k]+"/", 1))
					}
				}
			}
			// the same URL on the other side of its stop time
			if i := strings.Index(r.URL, "nowMS="); i > 0 && strings.Contains(r.URL, "/stop_1800/") {
				other := "nowMS=3600123"
				if strings.HasPrefix(r.URL[i:], "nowMS=36") {
					other = "nowMS=30123"
				}
				cands = append(cands, r.URL[:i]+other)
			}
			if len(cands) > 0 {
				c.Reqs = append(c.Reqs, Req{Method: r.Method, URL: rapid.SampledFrom(cands).Draw(t, "sibling")})
				c.Siblings++
			}
		}
	}
	c.Perm = rapid.Permutation(seq(len(c.Reqs))).Draw(t, "perm")
	c.Workers = rapid.SampledFrom([]int{2, 4, 8, 16}).Draw(t, "workers")
	c.Rounds = rapid.IntRange(1, 3).Draw(t, "rounds")
	return c, e
}

func seq(n int) []int {
	s := make([]int, n)
	for i := range s {
		s[i] = i
	}
	return s
}

type obs struct {
	code  int
	ctype string
	sum   string
	n     int
}

func (o obs) String() string {
	return fmt.Sprintf("%d %q %d bytes sha256=%s", o.code, o.ctype, o.n, o.sum[:12])
}

func do(s *ls.Server, r Req) (o obs) {
	defer func() {
		if p := recover(); p != nil {
			o = obs{code: -2, sum: fmt.Sprintf("panic: %v", p) + strings.Repeat(" ", 12)}
		}
	}()
	var body []byte
	if r.Body != "" {
		body = []byte(strings.Replace(r.Body, "SINK", sink().URL, 1))
	}
	hdr := map[string]string{}
	if body != nil {
		hdr["Content-Type"] = "application/json"
	}
	resp := s.Do(r.Method, r.URL, body, hdr)
	h := sha256.Sum256(resp.Body)
	return obs{code: resp.Code, ctype: resp.Header.Get("Content-Type"), sum: hex.EncodeToString(h[:]), n: len(resp.Body)}
}

// optsFor mirrors how env builds the long-running instance: the bundled tree is served with the test DRM configuration
func optsFor(key string) []ls.Option {
	if key == "bundled" {
		return []ls.Option{func(c *app.ServerConfig) { c.DrmCfgFile = ls.RepoRoot() + "/pkg/drm/testdata/drm_config_test.json" }}
	}
	return nil
}

var (
	cachedMu  sync.Mutex
	cachedSrv = map[string]*ls.Server{}
)

// cachedServer returns an instance over the same VoD tree whose representations were loaded from
// representation-data files (written once by a scanning instance).
func cachedServer(e *env.Env, key string) (*ls.Server, error) {
	cachedMu.Lock()
	defer cachedMu.Unlock()
	if s, ok := cachedSrv[key]; ok {
		return s, nil
	}
	dir, err := os.MkdirTemp("", "repdata")
	if err != nil {
		return nil, err
	}
	if _, err := ls.New(e.Srv.VodRoot, append(optsFor(key), func(c *app.ServerConfig) { c.RepDataRoot, c.WriteRepData = dir, true })...); err != nil {
		return nil, err
	}
	s, err := ls.New(e.Srv.VodRoot, append(optsFor(key), func(c *app.ServerConfig) { c.RepDataRoot = dir })...)
	if err != nil {
		return nil, err
	}
	if len(cachedSrv) > 24 {
		for k := range cachedSrv {
			if k != "bundled" {
				delete(cachedSrv, k)
			}
		}
	}
	cachedSrv[key] = s
	return s, nil
}

type info struct {
	ok200, distinct, dups int
	kinds                 map[string]bool
}

func cleanupSessions(s *ls.Server) {
	for id := 1; id <= 40; id++ {
		s.Do("DELETE", fmt.Sprintf("/api/cmaf-ingests/%d", id), nil, nil)
	}
}

func checkCase(c Case, e *env.Env) (*hx.Violation, info) {
	inf := info{kinds: map[string]bool{}}
	key := "bundled"
	if c.Target.Layout != nil {
		key = c.Target.Name()
	}
	fresh, err := ls.New(e.Srv.VodRoot, optsFor(key)...)
	if err != nil {
		return hx.V("harness", "fresh server: %v", err), inf
	}
	cached, err := cachedServer(e, key)
	if err != nil {
		return hx.V("harness", "cache-loaded server: %v", err), inf
	}
	long := e.Srv
	defer cleanupSessions(fresh)
	defer cleanupSessions(long)
	// 1. reference: a fresh instance, requests in generated order
	ref := make([]obs, len(c.Reqs))
	seen := map[string]bool{}
	for i, r := range c.Reqs {
		ref[i] = do(fresh, r)
		if r.API {
			continue
		}
		if ref[i].code == -2 {
			return hx.V("panic", "%s %s: %s", r.Method, r.URL, ref[i].sum), inf
		}
		if ref[i].code == 200 {
			inf.ok200++
		}
		if seen[r.URL] {
			inf.dups++
		} else {
			seen[r.URL] = true
			inf.distinct++
		}
	}
	cmp := func(phase string, i int, got obs) *hx.Violation {
		r := c.Reqs[i]
		if r.API {
			if got.code == -2 {
				return hx.V("panic", "%s: %s %s: %s", phase, r.Method, r.URL, got.sum)
			}
			return nil
		}
		if got != ref[i] {
			return hx.V("response-differs", "%s: %s (request %d)\n   fresh instance, first pass: %v\n   here: %v", phase, r.URL, i, ref[i], got)
		}
		return nil
	}
	// the same URL at the same instant must have given the same answer within the reference pass as well
	first := map[string]int{}
	for i, r := range c.Reqs {
		if r.API {
			continue
		}
		if j, ok := first[r.URL]; ok {
			if ref[i] != ref[j] {
				return hx.V("response-differs", "history dependence on a fresh instance: %s\n   request %d: %v\n   request %d: %v", r.URL, j, ref[j], i, ref[i]), inf
			}
		} else {
			first[r.URL] = i
		}
	}
	// 2. the long-running instance, permuted order, twice
	for pass := 0; pass < 2; pass++ {
		for _, i := range c.Perm {
			if v := cmp(fmt.Sprintf("long-running instance, permuted order, pass %d", pass+1), i, do(long, c.Reqs[i])); v != nil {
				return v, inf
			}
		}
	}
	// 3. the cache-loaded instance
	for i := range c.Reqs {
		if c.Reqs[i].API {
			continue
		}
		if v := cmp("instance loaded from representation-data files", i, do(cached, c.Reqs[i])); v != nil {
			return v, inf
		}
	}
	// 4. concurrently, on the long-running and on the fresh instance
	for _, srv := range []struct {
		name string
		s    *ls.Server
	}{{"long-running", long}, {"fresh", fresh}} {
		jobs := make(chan int, len(c.Reqs)*c.Rounds)
		for k := 0; k < c.Rounds; k++ {
			for j := range c.Perm {
				jobs <- c.Perm[(j+k*7)%len(c.Perm)]
			}
		}
		close(jobs)
		var wg sync.WaitGroup
		var mu sync.Mutex
		var bad *hx.Violation
		start := make(chan struct{})
		for w := 0; w < c.Workers; w++ {
			wg.Add(1)
			go func() {
				defer wg.Done()
				<-start
				for i := range jobs {
					got := do(srv.s, c.Reqs[i])
					if v := cmp(fmt.Sprintf("%s instance, %d concurrent workers", srv.name, c.Workers), i, got); v != nil {
						mu.Lock()
						if bad == nil {
							bad = v
						}
						mu.Unlock()
					}
				}
			}()
		}
		close(start)
		wg.Wait()
		if bad != nil {
			return bad, inf
		}
	}
	return nil, inf
}

func TestC07(t *testing.T) {
	run := hx.Start(t, "C07")
	defer run.Finish()
	if run.Replaying() {
		var c Case
		run.ReplayCase(&c)
		e, err := env.Get(c.Target)
		if err != nil {
			t.Fatalf("HARNESS: %v", err)
		}
		for i := 0; i < 5; i++ { // schedules vary: replay a few times
			if v, _ := checkCase(c, e); v != nil {
				run.Fail(t, c, v)
			}
		}
		return
	}
	run.Essential("kind:mpd", "kind:init", "kind:media", "kind:patch", "kind:timesubs", "kind:api", "opt:eccp", "opt:drm", "opt:chunkdur", "repeated-url")
	run.Rapid(t, 1, 40, 400, func(rt *rapid.T) {
		c, e := genCase(rt)
		run.Journal(c)
		v, inf := checkCase(c, e)
		cls := map[string]bool{}
		for _, r := range c.Reqs {
			switch {
			case r.API:
				cls["kind:api"] = true
			case strings.HasPrefix(r.URL, "/patch/"):
				cls["kind:patch"] = true
			case strings.Contains(r.URL, "/timestpp-") || strings.Contains(r.URL, "/timewvtt-"):
				cls["kind:timesubs"] = true
			case strings.Contains(r.URL, ".mpd?"):
				cls["kind:mpd"] = true
			case strings.Contains(r.URL, "init"):
				cls["kind:init"] = true
			case strings.HasPrefix(r.URL, "/livesim2/"):
				cls["kind:media"] = true
			default:
				cls["kind:page"] = true
			}
			for _, o := range []string{"eccp", "drm", "chunkdur", "periods", "scte35", "segtimeline_", "segtimelinenr"} {
				if strings.Contains(r.URL, "/"+o) {
					cls["opt:"+strings.TrimSuffix(o, "_")] = true
				}
			}
		}
		if inf.dups > 0 {
			cls["repeated-url"] = true
		}
		if c.Siblings > 0 {
			cls["sibling-requests"] = true
		}
		var cl []string
		for k := range cls {
			cl = append(cl, k)
		}
		sort.Strings(cl)
		if inf.ok200 >= 3 && inf.distinct >= 4 {
			run.NonTrivial(c)
			cl = append(cl, "nontrivial")
		}
		run.Eval(cl...)
		run.Sample(map[string]any{"asset": c.Target.Name(), "requests": len(c.Reqs), "status200": inf.ok200, "workers": c.Workers, "rounds": c.Rounds, "first": c.Reqs[0].URL})
		if v != nil {
			if v.Kind == "harness" {
				rt.Fatalf("HARNESS: %s", v.Msg)
			}
			run.Fail(rt, c, v)
		}
	})
	_ = bytes.Equal
}
