package zprobe

import (
	"fmt"
	"os"
	"regexp"
	"strings"
	"testing"

	"verifharness/internal/ls"
)

func TestProbe(t *testing.T) {
	s, err := ls.Bundled()
	if err != nil {
		t.Fatal(err)
	}
	re := regexp.MustCompile(`<AdaptationSet[^>]*>|publishTime="[^"]*"`)
	for _, u := range strings.Split(os.Getenv("PROBE_URLS"), " ") {
		if u == "" {
			continue
		}
		r := s.Get(u)
		fmt.Printf("%s -> %d %v\n", u, r.Code, re.FindAllString(string(r.Body), -1))
	}
}
