// C04 — each segment goes too-early -> available -> gone, at exactly the right instants.
package c04

import (
	"fmt"
	"regexp"
	"sort"
	"strconv"
	"testing"

	"pgregory.net/rapid"
	"verifharness/internal/assetgen"
	"verifharness/internal/env"
	"verifharness/internal/gen"
	"verifharness/internal/hx"
	"verifharness/internal/ls"
	"verifharness/internal/refmodel"
)

type Case struct {
	Target   env.Target   `json:"target"`
	RepID    string       `json:"rep"`
	Cfg      refmodel.Cfg `json:"cfg"`
	N        int64        `json:"n"`
	Instants []int64      `json:"instants"` // sorted nowMS values
	Regime   string       `json:"regime"`
	// NotFound: "" (normal sweep) | "below-snr" | "unknown-rep" | "unknown-asset"
	NotFound string `json:"notfound,omitempty"`
	// TimeOffsetMS != 0: the URL carries timeoffset_<s>: the server's clock is the request instant plus the offset, so the
	// request is made that much earlier (later) on the wall clock and must behave as at the listed instant
	TimeOffsetMS int64 `json:"timeoffset_ms,omitempty"`
}

const maxNowMS = 4_102_444_800_000 // 2100-01-01

func genCase(t *rapid.T) (Case, *env.Env) {
	tg := gen.Target(t, assetgen.Opts{AllowText: true, AllowThumb: true}, 40, nil)
	e, err := env.Get(tg)
	if err != nil {
		t.Fatalf("HARNESS: %v", err)
	}
	rep := gen.RepOfKinds(t, e.Asset, "video", "video", "audio", "audio", "text", "image")
	segMS := int64(e.Asset.LoopMS) / int64(len(e.Asset.Ref.Segs))
	cfg := gen.Cfg(t, []string{"number", "time", "tlnr"}, segMS, true)
	if tg.Layout != nil && tg.Layout.AvgSegMS() < 1000 {
		cfg.Extra = []string{"mup_1"}
	}
	tl := refmodel.NewTimeline(e.Asset, rep, cfg)
	n, regime := gen.Index(t, tl, cfg.StartS)
	c := Case{Target: tg, RepID: rep.ID, Cfg: cfg, N: n, Regime: regime}
	if rapid.IntRange(0, 9).Draw(t, "notfound?") == 0 {
		c.NotFound = rapid.SampledFrom([]string{"below-snr", "unknown-rep", "unknown-asset"}).Draw(t, "nf")
		if c.NotFound == "below-snr" && cfg.Snr == 0 {
			c.Cfg.Snr, c.Cfg.HasSnr = 5, true
		}
	}
	if rapid.IntRange(0, 5).Draw(t, "timeoffset?") == 0 {
		c.TimeOffsetMS = rapid.SampledFrom([]int64{500, 1500, -1500, 250, 2000, -750, 1, -999}).Draw(t, "timeoffset")
	}
	ts := tl.TS()
	a := tl.AvailU(n)
	astMS := cfg.StartS * 1000
	aMS := gen.CeilDivU(a, ts) // first whole ms at or after A_n
	goneMS := aMS + cfg.TsbdS*1000
	span := segMS
	set := map[int64]bool{}
	add := func(v int64) {
		if v >= 0 && v <= maxNowMS {
			set[v] = true
		}
	}
	k := rapid.IntRange(10, 30).Draw(t, "ninst")
	for i := 0; i < k; i++ {
		switch rapid.SampledFrom([]string{"avail", "avail", "avail", "gone", "gone", "margin", "margin", "ast", "late", "interior"}).Draw(t, "bp") {
		case "avail":
			add(aMS + gen.Delta(t, span))
		case "gone":
			add(goneMS + gen.Delta(t, span))
		case "margin":
			add(goneMS + refmodel.MarginS*1000 + gen.Delta(t, span))
		case "ast":
			add(astMS + gen.Delta(t, span))
		case "late":
			add(goneMS + 3600_000 + int64(rapid.IntRange(1, 100_000_000).Draw(t, "late")))
		case "interior":
			if cfg.TsbdS > 0 {
				add(aMS + int64(rapid.IntRange(0, int(min64(cfg.TsbdS*1000, 2_000_000_000))).Draw(t, "in")))
			}
		}
	}
	for v := range set {
		c.Instants = append(c.Instants, v)
	}
	sort.Slice(c.Instants, func(i, j int) bool { return c.Instants[i] < c.Instants[j] })
	return c, e
}

func min64(a, b int64) int64 {
	if a < b {
		return a
	}
	return b
}

var tooEarlyRe = regexp.MustCompile(`(-?\d+)\s*ms`)

type outcome struct {
	phases map[int]bool
}

// goneSlackS: between A_n+tsbd and A_n+tsbd+goneSlackS both 200 and 410 are accepted ("available for at least tsbd");
// the documented margin is 10 s; one hour later the segment must be gone.
const goneSlackS = 3600

func checkCase(c Case, e *env.Env) (*hx.Violation, outcome) {
	out := outcome{phases: map[int]bool{}}
	rep := e.Asset.Reps[c.RepID]
	if rep == nil {
		return hx.V("harness", "unknown rep %s", c.RepID), out
	}
	tl := refmodel.NewTimeline(e.Asset, rep, c.Cfg)
	name := tl.SegName(rep, c.N)
	asset := e.Asset.Path
	switch c.NotFound {
	case "below-snr":
		if c.Cfg.Type == "time" && rep.ContentType != "image" {
			return nil, out // numbers do not exist in $Time$ addressing
		}
		name = rep.MediaName(uint64(c.Cfg.Snr-1), false)
	case "unknown-rep":
		name = "NoSuchRep/" + strconv.FormatInt(tl.Number(c.N), 10) + ".m4s"
	case "unknown-asset":
		// unrelated name, a name that merely starts with a known asset path, and one that is a prefix of it
		switch c.N % 3 {
		case 0:
			asset = "no/such/asset"
		case 1:
			asset = e.Asset.Path + "_hd"
		default:
			asset = e.Asset.Path[:len(e.Asset.Path)-1]
		}
	}
	prevRank := -1
	var prevNow int64
	for _, now := range c.Instants {
		parts := c.Cfg.Parts()
		wall := now
		if c.TimeOffsetMS != 0 {
			if now-c.TimeOffsetMS < 0 {
				continue
			}
			wall = now - c.TimeOffsetMS
			parts = append(parts, "timeoffset_"+strconv.FormatFloat(float64(c.TimeOffsetMS)/1000, 'f', -1, 64))
		}
		url := ls.URL(parts, asset, name, wall)
		r := e.Srv.Get(url)
		if c.NotFound != "" {
			if now < c.Cfg.StartS*1000 {
				continue // before stream start everything is answered 425; the statement does not cover it
			}
			if r.Code != 404 {
				return hx.V("notfound-"+c.NotFound, "%s -> %v, expected 404", url, r), out
			}
			out.phases[404] = true
			continue
		}
		ph := tl.PhaseAt(c.N, now, goneSlackS)
		if !ph.Accepts(r.Code) {
			kind := "phase"
			if rep.ContentType == "audio" && c.Cfg.Type == "time" && c.Cfg.StartS != 0 {
				kind = "audio-time-start"
			}
			return hx.V(kind, "%s -> %v, model expects %v (A_n=%d/%d ms, tsbd %d s)", url, r, ph, tl.AvailU(c.N), tl.TS(), c.Cfg.TsbdS), out
		}
		rank := map[int]int{425: 0, 200: 1, 410: 2}[r.Code]
		if rank < prevRank {
			return hx.V("non-monotone", "%s: status %d at %d ms after a later phase at %d ms", url, r.Code, now, prevNow), out
		}
		prevRank, prevNow = rank, now
		out.phases[r.Code] = true
		if r.Code == 425 {
			m := tooEarlyRe.FindSubmatch(r.Body)
			if m == nil {
				return hx.V("425-body", "%s: 425 body %q does not state milliseconds", url, r.Body), out
			}
			got, _ := strconv.ParseInt(string(m[1]), 10, 64)
			ast := c.Cfg.StartS * 1000
			a := tl.AvailU(c.N)
			hi := gen.CeilDivU(a, tl.TS()) - now + 1
			lo := (a/tl.TS() - now) - 1
			if now < ast {
				// before the stream start: remaining time is at least until the start and at most until the segment is available
				lo = ast - now - 1
				if c.Cfg.AtoInf() || hi < ast-now+1 {
					hi = ast - now + 1 // an offset larger than the segment end puts A_n before the start: then the start is what is waited for
				}
			}
			if got < lo || got > hi {
				kind := "425-remaining"
				if now < ast {
					kind = "425-remaining-before-start"
				}
				return hx.V(kind, "%s: body %q, remaining ms expected in [%d,%d]", url, r.Body, lo, hi), out
			}
		}
	}
	return nil, out
}

func TestC04(t *testing.T) {
	run := hx.Start(t, "C04")
	defer run.Finish()
	if run.Replaying() {
		var c Case
		run.ReplayCase(&c)
		e, err := env.Get(c.Target)
		if err != nil {
			t.Fatalf("HARNESS: %v", err)
		}
		if v, _ := checkCase(c, e); v != nil {
			run.Fail(t, c, v)
		}
		return
	}
	run.Essential("kind:audio", "kind:video", "addr:time", "addr:number", "two-phases")
	run.Rapid(t, 1, 700, 5000, func(rt *rapid.T) {
		c, e := genCase(rt)
		v, out := checkCase(c, e)
		rep := e.Asset.Reps[c.RepID]
		cls := []string{"kind:" + rep.ContentType, "addr:" + c.Cfg.Type, "n:" + c.Regime}
		if c.Target.Layout != nil {
			cls = append(cls, "asset:generated")
		} else {
			cls = append(cls, "asset:bundled")
		}
		if c.Cfg.StartS != 0 {
			cls = append(cls, "start!=0")
		}
		if c.Cfg.AtoMS != 0 {
			cls = append(cls, "ato!=0")
		}
		if c.NotFound != "" {
			cls = append(cls, "notfound:"+c.NotFound)
		}
		if c.TimeOffsetMS != 0 {
			cls = append(cls, "timeoffset")
		}
		if len(out.phases) >= 2 {
			cls = append(cls, "two-phases")
			run.NonTrivial(c)
		}
		if len(out.phases) >= 3 {
			cls = append(cls, "three-phases")
		}
		run.Eval(cls...)
		run.Sample(map[string]any{"asset": c.Target.Name(), "rep": c.RepID, "url_parts": c.Cfg.Parts(), "n": c.N, "instants": len(c.Instants),
			"first_instants": firstN(c.Instants, 4), "phases": fmt.Sprint(out.phases), "notfound": c.NotFound})
		if v != nil {
			if v.Kind == "harness" {
				rt.Fatalf("HARNESS: %s", v.Msg)
			}
			run.Fail(rt, c, v)
		}
	})
}

func firstN(s []int64, n int) []int64 {
	if len(s) > n {
		return s[:n]
	}
	return s
}
