// Package vod is the harness's own reading of a VoD asset directory: MPD parsed with
// encoding/xml, segments parsed with mp4ff. It does not use any livesim2 code and is the
// source of the segment tables (S_i, E_i) the reference model works on.
package vod

import (
	"encoding/xml"
	"fmt"
	"os"
	"path/filepath"
	"sort"
	"strconv"
	"strings"

	"github.com/Eyevinn/mp4ff/mp4"
)

type Seg struct {
	Start, End uint64
	Nr         uint32 // number in the VoD file name (or 0 for $Time$ naming)
	File       string // path relative to the asset dir
}

func (s Seg) Dur() uint64 { return s.End - s.Start }

type Rep struct {
	ID          string
	ContentType string // video audio text image
	Codecs      string
	Timescale   uint64
	InitURI     string
	MediaURI    string // with $Number$ or $Time$
	TimeURI     bool
	Segs        []Seg
	SampleDur   uint32 // constant sample duration, 0 if not constant
	Init        *mp4.InitSegment
	Trex        *mp4.TrexBox
	AdaptIdx    int
}

func (r *Rep) LoopTicks() uint64 { return r.Segs[len(r.Segs)-1].End - r.Segs[0].Start }

// MediaName returns the live segment name (relative to the asset) for a number or time value.
func (r *Rep) MediaName(v uint64, timeAddressing bool) string {
	m := r.MediaURI
	s := strconv.FormatUint(v, 10)
	if timeAddressing {
		m = strings.ReplaceAll(m, "$Number$", "$Time$")
	} else {
		m = strings.ReplaceAll(m, "$Time$", "$Number$")
	}
	m = strings.ReplaceAll(m, "$Time$", s)
	return strings.ReplaceAll(m, "$Number$", s)
}

type AdaptSet struct {
	ContentType string
	Lang        string
	RepIDs      []string
}

type MPD struct {
	Name      string
	AdaptSets []AdaptSet
}

type Asset struct {
	Path   string // relative to the vod root, used in URLs
	Dir    string
	MPDs   map[string]*MPD
	Reps   map[string]*Rep
	Ref    *Rep
	LoopMS uint64
}

func (a *Asset) RepIDs() []string {
	ids := make([]string, 0, len(a.Reps))
	for id := range a.Reps {
		ids = append(ids, id)
	}
	sort.Strings(ids)
	return ids
}

// RepsOfType returns the representation ids of the given content type listed in the named MPD.
func (a *Asset) RepsOfType(mpdName, contentType string) []string {
	var out []string
	m := a.MPDs[mpdName]
	if m == nil {
		return nil
	}
	for _, as := range m.AdaptSets {
		if as.ContentType == contentType {
			out = append(out, as.RepIDs...)
		}
	}
	return out
}

type xS struct {
	T *uint64 `xml:"t,attr"`
	D uint64  `xml:"d,attr"`
	R int     `xml:"r,attr"`
}
type xSegTmpl struct {
	Media       string  `xml:"media,attr"`
	Init        string  `xml:"initialization,attr"`
	Timescale   *uint64 `xml:"timescale,attr"`
	Duration    *uint64 `xml:"duration,attr"`
	StartNumber *uint32 `xml:"startNumber,attr"`
	EndNumber   *uint32 `xml:"endNumber,attr"`
	Timeline    *struct {
		S []xS `xml:"S"`
	} `xml:"SegmentTimeline"`
}
type xRep struct {
	ID        string `xml:"id,attr"`
	Codecs    string `xml:"codecs,attr"`
	MimeType  string `xml:"mimeType,attr"`
	Bandwidth int    `xml:"bandwidth,attr"`
}
type xAS struct {
	ContentType string    `xml:"contentType,attr"`
	MimeType    string    `xml:"mimeType,attr"`
	Codecs      string    `xml:"codecs,attr"`
	Lang        string    `xml:"lang,attr"`
	Tmpl        *xSegTmpl `xml:"SegmentTemplate"`
	Reps        []xRep    `xml:"Representation"`
}
type xMPD struct {
	Type    string `xml:"type,attr"`
	Periods []struct {
		AS []xAS `xml:"AdaptationSet"`
	} `xml:"Period"`
}

func contentTypeOf(as xAS) string {
	if as.ContentType != "" {
		return as.ContentType
	}
	mt := func(m string) string {
		switch m {
		case "video/mp4":
			return "video"
		case "audio/mp4":
			return "audio"
		case "application/mp4":
			return "text"
		case "image/jpeg":
			return "image"
		}
		return ""
	}
	if c := mt(as.MimeType); c != "" {
		return c
	}
	cod := func(c string) string {
		switch {
		case strings.HasPrefix(c, "avc"), strings.HasPrefix(c, "hev"), strings.HasPrefix(c, "hvc"):
			return "video"
		case strings.HasPrefix(c, "mp4a"), strings.HasPrefix(c, "ac-3"), strings.HasPrefix(c, "ec-3"):
			return "audio"
		case strings.HasPrefix(c, "stpp"), strings.HasPrefix(c, "wvtt"):
			return "text"
		}
		return ""
	}
	if c := cod(as.Codecs); c != "" {
		return c
	}
	for _, r := range as.Reps {
		if c := mt(r.MimeType); c != "" {
			return c
		}
		if c := cod(r.Codecs); c != "" {
			return c
		}
	}
	return ""
}

// Load reads all MPDs of the asset directory dir (asset path rel = URL name).
func Load(root, rel string) (*Asset, error) {
	dir := filepath.Join(root, rel)
	a := &Asset{Path: rel, Dir: dir, MPDs: map[string]*MPD{}, Reps: map[string]*Rep{}}
	ents, err := os.ReadDir(dir)
	if err != nil {
		return nil, err
	}
	for _, e := range ents {
		if e.IsDir() || filepath.Ext(e.Name()) != ".mpd" {
			continue
		}
		if err := a.loadMPD(e.Name()); err != nil {
			return nil, fmt.Errorf("%s/%s: %w", rel, e.Name(), err)
		}
	}
	if len(a.MPDs) == 0 {
		return nil, fmt.Errorf("%s: no MPD", rel)
	}
	for _, id := range a.RepIDs() {
		if a.Reps[id].ContentType == "video" {
			a.Ref = a.Reps[id]
			break
		}
	}
	if a.Ref == nil {
		for _, id := range a.RepIDs() {
			if a.Reps[id].ContentType == "audio" {
				a.Ref = a.Reps[id]
				break
			}
		}
	}
	if a.Ref == nil {
		return nil, fmt.Errorf("%s: no video or audio", rel)
	}
	lt := a.Ref.LoopTicks() * 1000
	if lt%a.Ref.Timescale != 0 {
		return nil, fmt.Errorf("%s: loop is not a whole number of ms", rel)
	}
	a.LoopMS = lt / a.Ref.Timescale
	return a, nil
}

func (a *Asset) loadMPD(name string) error {
	data, err := os.ReadFile(filepath.Join(a.Dir, name))
	if err != nil {
		return err
	}
	var x xMPD
	if err := xml.Unmarshal(data, &x); err != nil {
		return err
	}
	if len(x.Periods) != 1 {
		return fmt.Errorf("%d periods", len(x.Periods))
	}
	m := &MPD{Name: name}
	for ai, as := range x.Periods[0].AS {
		ct := contentTypeOf(as)
		set := AdaptSet{ContentType: ct, Lang: as.Lang}
		if as.Tmpl == nil {
			return fmt.Errorf("no SegmentTemplate on AdaptationSet")
		}
		for _, xr := range as.Reps {
			set.RepIDs = append(set.RepIDs, xr.ID)
			if _, ok := a.Reps[xr.ID]; ok {
				continue
			}
			codecs := as.Codecs
			if xr.Codecs != "" {
				codecs = xr.Codecs
			}
			r := &Rep{ID: xr.ID, ContentType: ct, Codecs: codecs, AdaptIdx: ai}
			repl := func(s string) string {
				s = strings.ReplaceAll(s, "$RepresentationID$", xr.ID)
				return strings.ReplaceAll(s, "$Bandwidth$", strconv.Itoa(xr.Bandwidth))
			}
			r.InitURI, r.MediaURI = repl(as.Tmpl.Init), repl(as.Tmpl.Media)
			r.TimeURI = strings.Contains(r.MediaURI, "$Time$")
			if err := a.loadRep(r, as.Tmpl); err != nil {
				return fmt.Errorf("rep %s: %w", xr.ID, err)
			}
			a.Reps[xr.ID] = r
		}
		m.AdaptSets = append(m.AdaptSets, set)
	}
	a.MPDs[name] = m
	return nil
}

func (a *Asset) loadRep(r *Rep, t *xSegTmpl) error {
	if r.ContentType != "image" {
		f, err := mp4.ReadMP4File(filepath.Join(a.Dir, r.InitURI))
		if err != nil {
			return err
		}
		if f.Init == nil {
			return fmt.Errorf("no init")
		}
		r.Init = f.Init
		r.Timescale = uint64(f.Init.Moov.Trak.Mdia.Mdhd.Timescale)
		if f.Init.Moov.Mvex != nil {
			r.Trex = f.Init.Moov.Mvex.Trex
		}
	}
	readSeg := func(file string, nr uint32) (Seg, uint32, error) {
		f, err := mp4.ReadMP4File(filepath.Join(a.Dir, file))
		if err != nil {
			return Seg{}, 0, err
		}
		if len(f.Segments) != 1 {
			return Seg{}, 0, fmt.Errorf("%s: %d segments", file, len(f.Segments))
		}
		s := f.Segments[0]
		start := s.Fragments[0].Moof.Traf.Tfdt.BaseMediaDecodeTime()
		end := start
		common := int64(-1)
		for _, fr := range s.Fragments {
			fss, err := fr.GetFullSamples(r.Trex)
			if err != nil {
				return Seg{}, 0, err
			}
			end = fr.Moof.Traf.Tfdt.BaseMediaDecodeTime()
			for _, fs := range fss {
				end += uint64(fs.Dur)
				switch {
				case common == -1:
					common = int64(fs.Dur)
				case common != int64(fs.Dur):
					common = 0
				}
			}
		}
		if common < 0 {
			common = 0
		}
		return Seg{Start: start, End: end, Nr: nr, File: file}, uint32(common), nil
	}
	common := int64(-1)
	merge := func(c uint32) {
		switch {
		case common == -1:
			common = int64(c)
		case common != int64(c):
			common = 0
		}
	}
	name := func(v uint64) string {
		s := strconv.FormatUint(v, 10)
		return strings.ReplaceAll(strings.ReplaceAll(r.MediaURI, "$Time$", s), "$Number$", s)
	}
	switch {
	case t.Timeline != nil && r.TimeURI:
		var tt uint64
		for _, s := range t.Timeline.S {
			if s.T != nil {
				tt = *s.T
			}
			for i := 0; i <= s.R; i++ {
				sg, c, err := readSeg(name(tt), 0)
				if err != nil {
					return err
				}
				merge(c)
				r.Segs = append(r.Segs, sg)
				tt += s.D
			}
		}
	case !r.TimeURI:
		start := uint32(1)
		if t.StartNumber != nil {
			start = *t.StartNumber
		}
		for nr := start; ; nr++ {
			if t.EndNumber != nil && nr > *t.EndNumber {
				break
			}
			file := name(uint64(nr))
			if _, err := os.Stat(filepath.Join(a.Dir, file)); err != nil {
				break
			}
			if r.ContentType == "image" {
				ts := uint64(1)
				if t.Timescale != nil {
					ts = *t.Timescale
				}
				r.Timescale = ts
				d := uint64(0)
				if t.Duration != nil {
					d = *t.Duration
				}
				st := uint64(nr-start) * d
				r.Segs = append(r.Segs, Seg{Start: st, End: st + d, Nr: nr, File: file})
				continue
			}
			sg, c, err := readSeg(file, nr)
			if err != nil {
				return err
			}
			merge(c)
			r.Segs = append(r.Segs, sg)
		}
	default:
		return fmt.Errorf("unsupported template")
	}
	if len(r.Segs) == 0 {
		return fmt.Errorf("no segments")
	}
	if common > 0 {
		r.SampleDur = uint32(common)
	}
	return nil
}

// ReadSamples returns the samples of VoD segment idx (all fragments concatenated).
func (a *Asset) ReadSamples(r *Rep, idx int) ([]mp4.FullSample, error) {
	f, err := mp4.ReadMP4File(filepath.Join(a.Dir, r.Segs[idx].File))
	if err != nil {
		return nil, err
	}
	var out []mp4.FullSample
	for _, fr := range f.Segments[0].Fragments {
		fss, err := fr.GetFullSamples(r.Trex)
		if err != nil {
			return nil, err
		}
		out = append(out, fss...)
	}
	return out, nil
}
