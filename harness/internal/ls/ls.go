// Package ls runs livesim2 in-process (app.SetupServer + exported Router) and offers request helpers.
package ls

import (
	"bytes"
	"context"
	"encoding/json"
	"fmt"
	"io"
	"log/slog"
	"net/http"
	"net/http/httptest"
	"os"
	"path/filepath"
	"regexp"
	"sort"
	"strings"
	"sync"

	"github.com/Dash-Industry-Forum/livesim2/cmd/livesim2/app"
)

const BundledRoot = "/repo/cmd/livesim2/app/testdata/assets"

func init() { Quiet() }

// Quiet silences slog (the server logs every request and error).
func Quiet() {
	if os.Getenv("VERIF_LOG") != "" {
		return
	}
	slog.SetDefault(slog.New(slog.NewTextHandler(io.Discard, &slog.HandlerOptions{Level: slog.Level(100)})))
}

func RepoRoot() string {
	if r := os.Getenv("VERIF_REPO"); r != "" {
		return r
	}
	return "/repo"
}

type Server struct {
	S       *app.Server
	VodRoot string
}

type Option func(*app.ServerConfig)

func New(vodRoot string, opts ...Option) (*Server, error) {
	cfg := app.DefaultConfig
	cfg.VodRoot = vodRoot
	cfg.RepDataRoot = ""
	cfg.TimeoutS = 0
	cfg.LogLevel = "error"
	for _, o := range opts {
		o(&cfg)
	}
	s, err := app.SetupServer(context.Background(), &cfg)
	if err != nil {
		return nil, err
	}
	return &Server{S: s, VodRoot: vodRoot}, nil
}

var (
	bundledOnce sync.Once
	bundled     *Server
	bundledErr  error
)

// Bundled returns a shared server over the repository's test assets (with the test DRM configuration).
func Bundled() (*Server, error) {
	bundledOnce.Do(func() {
		bundled, bundledErr = New(BundledRoot, func(c *app.ServerConfig) {
			c.DrmCfgFile = RepoRoot() + "/pkg/drm/testdata/drm_config_test.json"
		})
	})
	return bundled, bundledErr
}

type Resp struct {
	Code   int
	Body   []byte
	Header http.Header
}

func (r Resp) String() string {
	b := r.Body
	if len(b) > 200 {
		b = b[:200]
	}
	return fmt.Sprintf("%d %q", r.Code, b)
}

func (s *Server) Do(method, url string, body []byte, hdr map[string]string) Resp {
	var rd io.Reader
	if body != nil {
		rd = bytes.NewReader(body)
	}
	req := httptest.NewRequest(method, url, rd)
	for k, v := range hdr {
		req.Header.Set(k, v)
	}
	rr := httptest.NewRecorder()
	s.S.Router.ServeHTTP(rr, req)
	return Resp{Code: rr.Code, Body: rr.Body.Bytes(), Header: rr.Header()}
}

func (s *Server) Get(url string) Resp { return s.Do("GET", url, nil, nil) }

// URL builds /livesim2/<parts>/<asset>/<file>?nowMS=<now>.
func URL(parts []string, asset, file string, nowMS int64) string {
	var b strings.Builder
	b.WriteString("/livesim2/")
	for _, p := range parts {
		b.WriteString(p)
		b.WriteString("/")
	}
	b.WriteString(asset)
	b.WriteString("/")
	b.WriteString(file)
	fmt.Fprintf(&b, "?nowMS=%d", nowMS)
	return b.String()
}

var (
	drmOnce sync.Once
	drmFile string
)

// DrmConfigFile returns a DRM configuration made of the repository's test packages plus packages derived from the one-key
// CPIX document: the same key under scheme cenc ("VERIF-1-key-cenc"), and both schemes without the optional explicitIV
// attribute ("VERIF-1-key-cbcs-noiv", "VERIF-1-key-cenc-noiv"). The files live in a per-process temporary directory.
func DrmConfigFile() string {
	drmOnce.Do(func() {
		src := RepoRoot() + "/pkg/drm/testdata"
		dir, err := os.MkdirTemp("", "drmcfg")
		if err != nil {
			panic(err)
		}
		must := func(err error) {
			if err != nil {
				panic(err)
			}
		}
		cfgData, err := os.ReadFile(filepath.Join(src, "drm_config_test.json"))
		must(err)
		var cfg struct {
			Version  string                   `json:"version"`
			Packages []map[string]interface{} `json:"packages"`
		}
		must(json.Unmarshal(cfgData, &cfg))
		for _, f := range []string{"cpix_1key_cbcs_test.xml", "cpix_2keys_cbcs_test.xml"} {
			b, err := os.ReadFile(filepath.Join(src, f))
			must(err)
			must(os.WriteFile(filepath.Join(dir, f), b, 0o644))
		}
		one, err := os.ReadFile(filepath.Join(src, "cpix_1key_cbcs_test.xml"))
		must(err)
		ivRe := regexp.MustCompile(` explicitIV="[^"]*"`)
		variants := map[string]string{
			"VERIF-1-key-cenc":      strings.ReplaceAll(string(one), `commonEncryptionScheme="cbcs"`, `commonEncryptionScheme="cenc"`),
			"VERIF-1-key-cbcs-noiv": ivRe.ReplaceAllString(string(one), ""),
			"VERIF-1-key-cenc-noiv": ivRe.ReplaceAllString(strings.ReplaceAll(string(one), `commonEncryptionScheme="cbcs"`, `commonEncryptionScheme="cenc"`), ""),
		}
		names := make([]string, 0, len(variants))
		for n := range variants {
			names = append(names, n)
		}
		sort.Strings(names)
		for _, n := range names {
			file := "cpix_" + strings.ToLower(n) + ".xml"
			must(os.WriteFile(filepath.Join(dir, file), []byte(variants[n]), 0o644))
			p := map[string]interface{}{}
			for k, v := range cfg.Packages[0] {
				p[k] = v
			}
			p["name"], p["cpixFile"], p["desc"] = n, file, "derived by the verification harness from the one-key test package"
			cfg.Packages = append(cfg.Packages, p)
		}
		out, err := json.MarshalIndent(cfg, "", "  ")
		must(err)
		drmFile = filepath.Join(dir, "drm_config.json")
		must(os.WriteFile(drmFile, out, 0o644))
	})
	return drmFile
}
