// Package ls runs livesim2 in-process (app.SetupServer + exported Router) and offers request helpers.
package ls

import (
	"bytes"
	"context"
	"fmt"
	"io"
	"log/slog"
	"net/http"
	"net/http/httptest"
	"os"
	"strings"
	"sync"

	"github.com/Dash-Industry-Forum/livesim2/cmd/livesim2/app"
)

const BundledRoot = "/repo/cmd/livesim2/app/testdata/assets"

func init() { Quiet() }

// Quiet silences slog (the server logs every request and error).
func Quiet() {
	if os.Getenv("VERIF_LOG") != "" {
		return
	}
	slog.SetDefault(slog.New(slog.NewTextHandler(io.Discard, &slog.HandlerOptions{Level: slog.Level(100)})))
}

func RepoRoot() string {
	if r := os.Getenv("VERIF_REPO"); r != "" {
		return r
	}
	return "/repo"
}

type Server struct {
	S       *app.Server
	VodRoot string
}

type Option func(*app.ServerConfig)

func New(vodRoot string, opts ...Option) (*Server, error) {
	cfg := app.DefaultConfig
	cfg.VodRoot = vodRoot
	cfg.RepDataRoot = ""
	cfg.TimeoutS = 0
	cfg.LogLevel = "error"
	for _, o := range opts {
		o(&cfg)
	}
	s, err := app.SetupServer(context.Background(), &cfg)
	if err != nil {
		return nil, err
	}
	return &Server{S: s, VodRoot: vodRoot}, nil
}

var (
	bundledOnce sync.Once
	bundled     *Server
	bundledErr  error
)

// Bundled returns a shared server over the repository's test assets (with the test DRM configuration).
func Bundled() (*Server, error) {
	bundledOnce.Do(func() {
		bundled, bundledErr = New(BundledRoot, func(c *app.ServerConfig) {
			c.DrmCfgFile = RepoRoot() + "/pkg/drm/testdata/drm_config_test.json"
		})
	})
	return bundled, bundledErr
}

type Resp struct {
	Code   int
	Body   []byte
	Header http.Header
}

func (r Resp) String() string {
	b := r.Body
	if len(b) > 200 {
		b = b[:200]
	}
	return fmt.Sprintf("%d %q", r.Code, b)
}

func (s *Server) Do(method, url string, body []byte, hdr map[string]string) Resp {
	var rd io.Reader
	if body != nil {
		rd = bytes.NewReader(body)
	}
	req := httptest.NewRequest(method, url, rd)
	for k, v := range hdr {
		req.Header.Set(k, v)
	}
	rr := httptest.NewRecorder()
	s.S.Router.ServeHTTP(rr, req)
	return Resp{Code: rr.Code, Body: rr.Body.Bytes(), Header: rr.Header()}
}

func (s *Server) Get(url string) Resp { return s.Do("GET", url, nil, nil) }

// URL builds /livesim2/<parts>/<asset>/<file>?nowMS=<now>.
func URL(parts []string, asset, file string, nowMS int64) string {
	var b strings.Builder
	b.WriteString("/livesim2/")
	for _, p := range parts {
		b.WriteString(p)
		b.WriteString("/")
	}
	b.WriteString(asset)
	b.WriteString("/")
	b.WriteString(file)
	fmt.Fprintf(&b, "?nowMS=%d", nowMS)
	return b.String()
}
