// Package assetgen builds VoD assets for livesim2 by re-cutting the real media bundled with the
// repository's tests (AVC samples of testpic_2s/V300, AAC frames of testpic_2s/A48, AC-3 frames of
// bbb_hevc_ac3_8s, the bundled init segments with mdhd.timescale rewritten, JPEG thumbnails).
// A Layout is a plain value: it can be drawn by rapid, stored in a replay file and re-materialised.
package assetgen

import (
	"bytes"
	"crypto/sha256"
	"encoding/hex"
	"encoding/json"
	"fmt"
	"os"
	"path/filepath"
	"regexp"
	"strings"
	"sync"

	"github.com/Eyevinn/mp4ff/bits"
	"github.com/Eyevinn/mp4ff/mp4"
	"pgregory.net/rapid"
)

const bundled = "/repo/cmd/livesim2/app/testdata/assets"

type Layout struct {
	VTimescale  int    `json:"vts"`
	VFrameDur   int    `json:"vfd"`
	VSegFrames  []int  `json:"vseg"`            // frames per video segment
	VFrags      int    `json:"vfrags"`          // fragments per VoD video segment (1 or 2)
	Audio       string `json:"audio,omitempty"` // "", "aac", "ac3"
	ASegFrames  []int  `json:"aseg,omitempty"`  // audio frames per VoD audio segment
	Text        bool   `json:"text,omitempty"`
	Thumbs      bool   `json:"thumbs,omitempty"`
	Form        string `json:"form"` // "timeline" ($Time$ + SegmentTimeline) or "number" (duration + $Number$)
	StartNumber int    `json:"snr"`  // VoD startNumber for the number form (0 or 1)
	Tag         string `json:"tag,omitempty"`
	// V2Extra != 0 adds a second video representation "V600" whose last segment has V2Extra more (or fewer) frames:
	// the representations then disagree in duration and livesim2 must leave the asset out.
	V2Extra int `json:"v2extra,omitempty"`
	// MPDSeconds (number form only): SegmentTemplate@duration in whole seconds without @timescale, as the bundled testpic assets have it
	MPDSeconds bool `json:"mpd_seconds,omitempty"`
	// Gap1 != 0 (video): the last sample of the first VoD segment is that many ticks shorter than nominal while the second segment
	// keeps its decode time, so the raw segment table has a hole at its first boundary which the loader has to close
	Gap1 int `json:"gap1,omitempty"`
	// TfhdDur: sample durations are carried as tfhd default_sample_duration instead of per-sample trun entries
	TfhdDur bool `json:"tfhd_dur,omitempty"`
	// VStart: the first video sample has decode time VStart frames (video-only layouts)
	VStart int `json:"vstart,omitempty"`
	// ShortMPD (number form, >= 2 segments): a second MPD "Manifest_short.mpd" names the same representations with
	// @endNumber one below the last segment. The representation is defined by the first MPD that names it.
	ShortMPD bool `json:"short_mpd,omitempty"`
	// TrexStale (with TfhdDur and audio): the audio init segment's trex box announces twice the real default sample duration;
	// every fragment overrides it in its tfhd, which takes precedence
	TrexStale bool `json:"trex_stale,omitempty"`
	// VCodec: @codecs of the video representations in the VoD MPD if not "avc1.64001e" (e.g. "avc3.64001e": in-band parameter sets)
	VCodec string `json:"vcodec,omitempty"`
	// ASCodecs: @codecs is written on the AdaptationSet elements of the VoD MPD instead of on their Representations
	ASCodecs bool `json:"as_codecs,omitempty"`
	// A2SegFrames (with Audio): a second audio adaptation set "A49" in the other codec (AC-3 next to AAC and vice versa, i.e.
	// another frame duration), with this many frames per VoD segment
	A2SegFrames []int `json:"aseg2,omitempty"`
	// V2Timescale/V2FrameDur (V2Extra == 0): a second video representation "V600" in an adaptation set of its own, with the same
	// frames on another clock of the same frame rate (e.g. 90000/3600 next to 1000/40): same duration, other timescale
	V2Timescale int `json:"v2ts,omitempty"`
	V2FrameDur  int `json:"v2fd,omitempty"`
}

// A2 returns codec kind and frame duration of the second audio track.
func (l Layout) A2() (string, int) {
	if l.Audio == "ac3" {
		return "aac", 1024
	}
	return "ac3", 1536
}

type Clock struct{ Timescale, FrameDur int }

// Clocks the generator draws from (timescale / frame duration).
var Clocks = []Clock{{1000, 40}, {12800, 512}, {15360, 512}, {25000, 1000}, {90000, 3000}, {90000, 3600}, {30000, 1001}, {60000, 1001}, {24000, 1001}}

// Quantum is the smallest number of frames whose duration is a whole number of milliseconds.
func (c Clock) Quantum() int {
	for q := 1; ; q++ {
		if q*c.FrameDur*1000%c.Timescale == 0 {
			return q
		}
	}
}

func (l Layout) Name() string {
	b, _ := json.Marshal(l)
	h := sha256.Sum256(b)
	return "g" + hex.EncodeToString(h[:6])
}

func (l Layout) TotalVFrames() int {
	n := 0
	for _, f := range l.VSegFrames {
		n += f
	}
	return n
}

func (l Layout) TotalAFrames() int {
	n := 0
	for _, f := range l.ASegFrames {
		n += f
	}
	return n
}

func (l Layout) AFrameDur() int {
	if l.Audio == "ac3" {
		return 1536
	}
	return 1024
}

// LoopTicks is the video loop duration in video ticks.
func (l Layout) LoopTicks() int { return l.TotalVFrames() * l.VFrameDur }

// AvgSegMS is the average video segment duration in ms (as livesim2 computes SegmentDurMS, rounded).
func (l Layout) AvgSegMS() float64 {
	return float64(l.LoopTicks()) * 1000 / float64(l.VTimescale) / float64(len(l.VSegFrames))
}

// Uniform reports whether all video segments have the same duration.
func (l Layout) Uniform() bool {
	for _, f := range l.VSegFrames {
		if f != l.VSegFrames[0] {
			return false
		}
	}
	return true
}

type Opts struct {
	Audio      []string // allowed audio kinds ("" = none); nil = all
	ForceAudio bool
	MaxSegs    int
	MinFrames  int // minimal frames per segment
	MaxFrames  int
	AllowText  bool
	AllowThumb bool
	Forms      []string
	AudioDelta []int // allowed differences (frames) between audio loop and the nearest-to-video loop; nil = {0}
	Clocks     []Clock
	Audio2     bool // allow a second audio adaptation set in the other codec
	Uniform    bool // only constant segment durations
	VStart     bool // allow layouts whose video track starts at a decode time other than 0
}

// Gen draws an admissible layout (loop is a whole number of ms) by construction.
func Gen(t *rapid.T, o Opts) Layout {
	clocks := o.Clocks
	if len(clocks) == 0 {
		clocks = Clocks
	}
	ck := rapid.SampledFrom(clocks).Draw(t, "clock")
	q := ck.Quantum()
	maxSegs := o.MaxSegs
	if maxSegs == 0 {
		maxSegs = 6
	}
	minF, maxF := o.MinFrames, o.MaxFrames
	if minF == 0 {
		minF = 5
	}
	if maxF == 0 {
		maxF = 75
	}
	n := rapid.IntRange(1, maxSegs).Draw(t, "nsegs")
	l := Layout{VTimescale: ck.Timescale, VFrameDur: ck.FrameDur, VFrags: 1}
	shape := "uniform"
	if !o.Uniform {
		shape = rapid.SampledFrom([]string{"uniform", "uniform", "alternating", "irregular"}).Draw(t, "shape")
	}
	a := rapid.IntRange(minF, maxF).Draw(t, "fa")
	b := rapid.IntRange(minF, maxF).Draw(t, "fb")
	for i := 0; i < n; i++ {
		switch shape {
		case "uniform":
			l.VSegFrames = append(l.VSegFrames, a)
		case "alternating":
			if i%2 == 0 {
				l.VSegFrames = append(l.VSegFrames, a)
			} else {
				l.VSegFrames = append(l.VSegFrames, b)
			}
		default:
			l.VSegFrames = append(l.VSegFrames, rapid.IntRange(minF, maxF).Draw(t, "f"))
		}
	}
	// make the loop a whole number of ms: by construction, not by rejection
	if rem := l.TotalVFrames() % q; rem != 0 {
		if shape == "uniform" {
			// scale every segment: n*a must be a multiple of q
			for a%q != 0 {
				a++
			}
			for i := range l.VSegFrames {
				l.VSegFrames[i] = a
			}
		} else {
			l.VSegFrames[n-1] += q - rem
		}
	}
	if rapid.IntRange(0, 3).Draw(t, "frags") == 0 {
		l.VFrags = 2
	}
	forms := o.Forms
	if len(forms) == 0 {
		forms = []string{"timeline", "number"}
	}
	l.Form = rapid.SampledFrom(forms).Draw(t, "form")
	if l.Form == "number" {
		l.StartNumber = rapid.SampledFrom([]int{1, 1, 0}).Draw(t, "vodsnr")
	}
	audio := o.Audio
	if audio == nil {
		audio = []string{"", "aac", "aac", "ac3"}
	}
	l.Audio = rapid.SampledFrom(audio).Draw(t, "audio")
	if o.ForceAudio && l.Audio == "" {
		l.Audio = "aac"
	}
	if l.Audio != "" {
		fd := l.AFrameDur()
		// audio ticks of the video loop (48 kHz), nearest number of frames
		loopA := l.LoopTicks() * 48000 / l.VTimescale
		frames := (loopA + fd/2) / fd
		deltas := o.AudioDelta
		if len(deltas) == 0 {
			deltas = []int{0}
		}
		frames += rapid.SampledFrom(deltas).Draw(t, "adelta")
		if frames < 2 {
			frames = 2
		}
		switch rapid.SampledFrom([]string{"follow", "follow", "fixed", "single"}).Draw(t, "agrid") {
		case "follow": // boundaries = video boundaries rounded to frames
			acc, prev := 0, 0
			for i, vf := range l.VSegFrames {
				acc += vf * l.VFrameDur
				e := (acc*48000/l.VTimescale + fd/2) / fd
				if i == n-1 {
					e = frames
				}
				if e > frames {
					e = frames
				}
				if e-prev > 0 {
					l.ASegFrames = append(l.ASegFrames, e-prev)
					prev = e
				}
			}
			if prev < frames {
				l.ASegFrames[len(l.ASegFrames)-1] += frames - prev
			}
		case "fixed":
			k := rapid.IntRange(8, 60).Draw(t, "agridk")
			left := frames
			for left > 0 {
				c := k
				if left < k+4 { // avoid a tiny last segment
					c = left
				}
				l.ASegFrames = append(l.ASegFrames, c)
				left -= c
			}
		default:
			l.ASegFrames = []int{frames}
		}
	}
	if l.Audio != "" && o.Audio2 && rapid.Bool().Draw(t, "audio2") {
		_, fd2 := l.A2()
		frames2 := (l.LoopTicks()*48000/l.VTimescale + fd2/2) / fd2
		if frames2 < 2 {
			frames2 = 2
		}
		acc, prev := 0, 0
		for i, vf := range l.VSegFrames {
			acc += vf * l.VFrameDur
			e := (acc*48000/l.VTimescale + fd2/2) / fd2
			if i == n-1 || e > frames2 {
				e = frames2
			}
			if e-prev > 0 {
				l.A2SegFrames = append(l.A2SegFrames, e-prev)
				prev = e
			}
		}
	}
	if o.AllowText && rapid.IntRange(0, 2).Draw(t, "text") == 0 {
		// the text track runs on a millisecond timescale: only when every video boundary is a whole number of ms
		// (otherwise its own, rounded, boundaries are breakpoints of their own)
		l.Text = true
		acc := 0
		for _, f := range l.VSegFrames {
			acc += f * l.VFrameDur
			if acc*1000%l.VTimescale != 0 {
				l.Text = false
			}
		}
	}
	if o.AllowThumb && l.Uniform() && rapid.IntRange(0, 2).Draw(t, "thumbs") == 0 {
		l.Thumbs = true
	}
	if o.VStart && rapid.IntRange(0, 3).Draw(t, "vstart?") == 0 {
		l.VStart = rapid.IntRange(1, 60).Draw(t, "vstart") * q
		l.Audio, l.ASegFrames, l.Text, l.Thumbs = "", nil, false, false
	}
	return l
}

// ---- source pools --------------------------------------------------------------------------------------

type pool struct {
	samples []mp4.FullSample
	init    []byte
	trackID uint32
}

var (
	poolOnce sync.Once
	pools    map[string]*pool
	thumbs   [][]byte
	poolErr  error
)

func loadPools() {
	pools = map[string]*pool{}
	load := func(key, initPath string, segs []string) {
		p := &pool{}
		raw, err := os.ReadFile(filepath.Join(bundled, initPath))
		if err != nil {
			poolErr = err
			return
		}
		p.init = raw
		f, err := mp4.DecodeFileSR(bits.NewFixedSliceReader(raw))
		if err != nil {
			poolErr = err
			return
		}
		p.trackID = f.Init.Moov.Trak.Tkhd.TrackID
		trex := f.Init.Moov.Mvex.Trex
		for _, s := range segs {
			sf, err := mp4.ReadMP4File(filepath.Join(bundled, s))
			if err != nil {
				poolErr = err
				return
			}
			for _, fr := range sf.Segments[0].Fragments {
				fss, err := fr.GetFullSamples(trex)
				if err != nil {
					poolErr = err
					return
				}
				for _, fs := range fss {
					d := make([]byte, len(fs.Data))
					copy(d, fs.Data)
					fs.Data = d
					p.samples = append(p.samples, fs)
				}
			}
		}
		pools[key] = p
	}
	load("video", "testpic_2s/V300/init.mp4", []string{"testpic_2s/V300/1.m4s", "testpic_2s/V300/2.m4s", "testpic_2s/V300/3.m4s", "testpic_2s/V300/4.m4s"})
	load("aac", "testpic_2s/A48/init.mp4", []string{"testpic_2s/A48/1.m4s", "testpic_2s/A48/2.m4s", "testpic_2s/A48/3.m4s", "testpic_2s/A48/4.m4s"})
	load("ac3", "bbb_hevc_ac3_8s/audio_init.mp4", []string{"bbb_hevc_ac3_8s/audio_1.m4s", "bbb_hevc_ac3_8s/audio_2.m4s", "bbb_hevc_ac3_8s/audio_3.m4s", "bbb_hevc_ac3_8s/audio_4.m4s"})
	load("text", "testpic_2s/imsc1_txt_sv/init.mp4", nil)
	for i := 1; i <= 4; i++ {
		b, err := os.ReadFile(filepath.Join(bundled, fmt.Sprintf("testpic_2s/thumbs/%d.jpg", i)))
		if err != nil {
			poolErr = err
			return
		}
		thumbs = append(thumbs, b)
	}
}

func initWithTimescale(raw []byte, ts uint32) ([]byte, error) {
	f, err := mp4.DecodeFileSR(bits.NewFixedSliceReader(raw))
	if err != nil {
		return nil, err
	}
	f.Init.Moov.Trak.Mdia.Mdhd.Timescale = ts
	var buf bytes.Buffer
	if err := f.Init.Encode(&buf); err != nil {
		return nil, err
	}
	return buf.Bytes(), nil
}

// tfhdDefaults makes writeSeg move constant sample durations/sizes/flags from the trun entries into tfhd defaults
// (the layout many packagers produce); set per Materialize call through Layout.TfhdDur.
var tfhdDefaults bool

func writeSeg(path string, trackID uint32, firstSeq uint32, frags [][]mp4.FullSample) error {
	seg := mp4.NewMediaSegment()
	for i, fss := range frags {
		fr, err := mp4.CreateFragment(firstSeq+uint32(i), trackID)
		if err != nil {
			return err
		}
		seg.AddFragment(fr)
		for _, fs := range fss {
			fr.AddFullSample(fs)
		}
		if tfhdDefaults && len(fss) > 0 {
			if err := fr.Moof.Traf.OptimizeTfhdTrun(); err != nil {
				return err
			}
		}
	}
	var buf bytes.Buffer
	if err := seg.Encode(&buf); err != nil {
		return err
	}
	return os.WriteFile(path, buf.Bytes(), 0o644)
}

func msToTTML(ms int) string {
	return fmt.Sprintf("%02d:%02d:%02d.%03d", ms/3600000, ms/60000%60, ms/1000%60, ms%1000)
}

// TextBoundsMS returns the text segment boundaries in ms (video boundaries rounded to ms).
func (l Layout) TextBoundsMS() []int {
	b := []int{0}
	acc := 0
	for _, f := range l.VSegFrames {
		acc += f * l.VFrameDur
		b = append(b, (acc*1000+l.VTimescale/2)/l.VTimescale)
	}
	return b
}

var matMu sync.Mutex

// Materialize writes the asset under root/<Name()> unless it already exists. It returns the asset path.
func (l Layout) Materialize(root string) (string, error) {
	poolOnce.Do(loadPools)
	if poolErr != nil {
		return "", poolErr
	}
	name := l.Name()
	dir := filepath.Join(root, name)
	matMu.Lock()
	defer matMu.Unlock()
	tfhdDefaults = l.TfhdDur // writeSeg runs under matMu only
	defer func() { tfhdDefaults = false }()
	if _, err := os.Stat(filepath.Join(dir, "Manifest.mpd")); err == nil {
		return name, nil
	}
	tmp := dir + ".tmp"
	_ = os.RemoveAll(tmp)
	for _, d := range []string{"V300", "A48", "A49", "T1", "thumbs"} {
		if err := os.MkdirAll(filepath.Join(tmp, d), 0o755); err != nil {
			return "", err
		}
	}
	vp := pools["video"]
	vinit, err := initWithTimescale(vp.init, uint32(l.VTimescale))
	if err != nil {
		return "", err
	}
	if err := os.WriteFile(filepath.Join(tmp, "V300/init.mp4"), vinit, 0o644); err != nil {
		return "", err
	}
	segName := func(i int, start int) string {
		if l.Form == "timeline" {
			return fmt.Sprintf("%d.m4s", start)
		}
		return fmt.Sprintf("%d.m4s", l.StartNumber+i)
	}
	// video
	frameIdx, t := 0, l.VStart*l.VFrameDur
	var vTimeline, aTimeline, tTimeline strings.Builder
	for i, nf := range l.VSegFrames {
		var fss []mp4.FullSample
		for k := 0; k < nf; k++ {
			src := vp.samples[frameIdx%len(vp.samples)]
			fs := mp4.FullSample{Sample: mp4.Sample{Flags: src.Flags, Dur: uint32(l.VFrameDur), Size: src.Size,
				CompositionTimeOffset: src.CompositionTimeOffset / 3000 * int32(l.VFrameDur)}, DecodeTime: uint64(t + k*l.VFrameDur), Data: src.Data}
			if k == 0 {
				fs.Flags = mp4.SyncSampleFlags
			}
			if i == 0 && k == nf-1 && l.Gap1 > 0 && l.Gap1 < l.VFrameDur {
				fs.Dur -= uint32(l.Gap1)
			}
			fss = append(fss, fs)
			frameIdx++
		}
		frags := [][]mp4.FullSample{fss}
		if l.VFrags == 2 && nf >= 2 {
			frags = [][]mp4.FullSample{fss[:nf/2], fss[nf/2:]}
		}
		if err := writeSeg(filepath.Join(tmp, "V300", segName(i, t)), vp.trackID, uint32(i+1), frags); err != nil {
			return "", err
		}
		fmt.Fprintf(&vTimeline, "<S t=\"%d\" d=\"%d\"/>", t, nf*l.VFrameDur)
		t += nf * l.VFrameDur
	}
	var v2Timeline strings.Builder
	if l.V2Extra != 0 || l.V2Timescale != 0 {
		if err := os.MkdirAll(filepath.Join(tmp, "V600"), 0o755); err != nil {
			return "", err
		}
		fd2, v2init := l.VFrameDur, vinit
		if l.V2Timescale != 0 {
			fd2 = l.V2FrameDur
			if v2init, err = initWithTimescale(vp.init, uint32(l.V2Timescale)); err != nil {
				return "", err
			}
		}
		if err := os.WriteFile(filepath.Join(tmp, "V600/init.mp4"), v2init, 0o644); err != nil {
			return "", err
		}
		fi, t2 := 0, 0
		for i, nf := range l.VSegFrames {
			if i == len(l.VSegFrames)-1 {
				nf += l.V2Extra
			}
			var fss []mp4.FullSample
			for k := 0; k < nf; k++ {
				src := vp.samples[fi%len(vp.samples)]
				fs := mp4.FullSample{Sample: mp4.Sample{Flags: src.Flags, Dur: uint32(fd2), Size: src.Size}, DecodeTime: uint64(t2 + k*fd2), Data: src.Data}
				if k == 0 {
					fs.Flags = mp4.SyncSampleFlags
				}
				fss = append(fss, fs)
				fi++
			}
			if err := writeSeg(filepath.Join(tmp, "V600", segName(i, t2)), vp.trackID, uint32(i+1), [][]mp4.FullSample{fss}); err != nil {
				return "", err
			}
			fmt.Fprintf(&v2Timeline, "<S t=\"%d\" d=\"%d\"/>", t2, nf*fd2)
			t2 += nf * fd2
		}
	}
	// audio
	if l.Audio != "" {
		ap := pools[l.Audio]
		ainit := ap.init
		if l.TrexStale && l.TfhdDur {
			f, err := mp4.DecodeFileSR(bits.NewFixedSliceReader(ap.init))
			if err != nil {
				return "", err
			}
			f.Init.Moov.Mvex.Trex.DefaultSampleDuration = uint32(2 * l.AFrameDur())
			var buf bytes.Buffer
			if err := f.Init.Encode(&buf); err != nil {
				return "", err
			}
			ainit = buf.Bytes()
		}
		if err := os.WriteFile(filepath.Join(tmp, "A48/init.mp4"), ainit, 0o644); err != nil {
			return "", err
		}
		fd := l.AFrameDur()
		fi, at := 0, 0
		for i, nf := range l.ASegFrames {
			var fss []mp4.FullSample
			for k := 0; k < nf; k++ {
				src := ap.samples[fi%len(ap.samples)]
				// tag each frame with its index so that a wrong frame is visible even if payloads repeat
				data := make([]byte, len(src.Data))
				copy(data, src.Data)
				fss = append(fss, mp4.FullSample{Sample: mp4.Sample{Flags: mp4.SyncSampleFlags, Dur: uint32(fd), Size: uint32(len(data))}, DecodeTime: uint64(at + k*fd), Data: data})
				fi++
			}
			if err := writeSeg(filepath.Join(tmp, "A48", segName(i, at)), ap.trackID, uint32(i+1), [][]mp4.FullSample{fss}); err != nil {
				return "", err
			}
			fmt.Fprintf(&aTimeline, "<S t=\"%d\" d=\"%d\"/>", at, nf*fd)
			at += nf * fd
		}
	}
	var a2Timeline strings.Builder
	if l.Audio != "" && len(l.A2SegFrames) > 0 {
		kind2, fd2 := l.A2()
		ap := pools[kind2]
		if err := os.WriteFile(filepath.Join(tmp, "A49/init.mp4"), ap.init, 0o644); err != nil {
			return "", err
		}
		fi, at := 0, 0
		for i, nf := range l.A2SegFrames {
			var fss []mp4.FullSample
			for k := 0; k < nf; k++ {
				src := ap.samples[fi%len(ap.samples)]
				data := make([]byte, len(src.Data))
				copy(data, src.Data)
				fss = append(fss, mp4.FullSample{Sample: mp4.Sample{Flags: mp4.SyncSampleFlags, Dur: uint32(fd2), Size: uint32(len(data))}, DecodeTime: uint64(at + k*fd2), Data: data})
				fi++
			}
			if err := writeSeg(filepath.Join(tmp, "A49", segName(i, at)), ap.trackID, uint32(i+1), [][]mp4.FullSample{fss}); err != nil {
				return "", err
			}
			fmt.Fprintf(&a2Timeline, "<S t=\"%d\" d=\"%d\"/>", at, nf*fd2)
			at += nf * fd2
		}
	}
	// text (stpp, timescale 1000)
	if l.Text {
		tp := pools["text"]
		if err := os.WriteFile(filepath.Join(tmp, "T1/init.mp4"), tp.init, 0o644); err != nil {
			return "", err
		}
		bounds := l.TextBoundsMS()
		for i := 0; i+1 < len(bounds); i++ {
			s, e := bounds[i], bounds[i+1]
			b, en := s+(e-s)/10, e-(e-s)/10
			ttml := fmt.Sprintf("<?xml version=\"1.0\" encoding=\"UTF-8\"?>\n<tt xmlns=\"http://www.w3.org/ns/ttml\" xml:lang=\"en\"><body><div>"+
				"<p xml:id=\"c%d\" begin=\"%s\" end=\"%s\"><span>seg %d at %s</span></p><p begin=\"%s\" end=\"%s\">second</p></div></body></tt>\n",
				i, msToTTML(b), msToTTML(en), i, msToTTML(s), msToTTML(s), msToTTML(e))
			fs := mp4.FullSample{Sample: mp4.Sample{Flags: mp4.SyncSampleFlags, Dur: uint32(e - s), Size: uint32(len(ttml))}, DecodeTime: uint64(s), Data: []byte(ttml)}
			nameT := fmt.Sprintf("%d.m4s", s)
			if l.Form == "number" {
				nameT = fmt.Sprintf("%d.m4s", l.StartNumber+i)
			}
			if err := writeSeg(filepath.Join(tmp, "T1", nameT), tp.trackID, uint32(i+1), [][]mp4.FullSample{{fs}}); err != nil {
				return "", err
			}
			fmt.Fprintf(&tTimeline, "<S t=\"%d\" d=\"%d\"/>", s, e-s)
		}
	}
	if l.Thumbs {
		for i := range l.VSegFrames {
			if err := os.WriteFile(filepath.Join(tmp, "thumbs", fmt.Sprintf("%d.jpg", i+1)), append(append([]byte{}, thumbs[i%len(thumbs)]...), byte(i)), 0o644); err != nil {
				return "", err
			}
		}
	}
	if err := os.WriteFile(filepath.Join(tmp, "Manifest.mpd"), []byte(l.mpd(vTimeline.String(), aTimeline.String(), tTimeline.String(), a2Timeline.String(), v2Timeline.String())), 0o644); err != nil {
		return "", err
	}
	if l.ShortMPD && l.Form == "number" && len(l.VSegFrames) >= 2 {
		short := strings.ReplaceAll(l.mpd("", "", "", "", ""), `<SegmentTemplate startNumber="`+fmt.Sprint(l.StartNumber)+`"`,
			fmt.Sprintf(`<SegmentTemplate startNumber="%d" endNumber="%d"`, l.StartNumber, l.StartNumber+len(l.VSegFrames)-2))
		if err := os.WriteFile(filepath.Join(tmp, "Manifest_short.mpd"), []byte(short), 0o644); err != nil {
			return "", err
		}
	}
	for _, d := range []string{"A48", "A49", "T1", "thumbs", "V600"} {
		ents, _ := os.ReadDir(filepath.Join(tmp, d))
		if len(ents) == 0 {
			_ = os.Remove(filepath.Join(tmp, d))
		}
	}
	if err := os.Rename(tmp, dir); err != nil {
		return "", err
	}
	return name, nil
}

func (l Layout) vcodec() string {
	if l.VCodec != "" {
		return l.VCodec
	}
	return "avc1.64001e"
}

func (l Layout) mpd(vTL, aTL, tTL, a2TL, v2TL string) string {
	loopMS := l.LoopTicks() * 1000 / l.VTimescale
	dur := fmt.Sprintf("PT%d.%03dS", loopMS/1000, loopMS%1000)
	var b strings.Builder
	fmt.Fprintf(&b, `<?xml version="1.0" encoding="utf-8"?>
<MPD xmlns="urn:mpeg:dash:schema:mpd:2011" profiles="urn:mpeg:dash:profile:isoff-live:2011" minBufferTime="PT2S" type="static" mediaPresentationDuration="%s">
  <ProgramInformation><Title>generated %s</Title></ProgramInformation>
  <Period id="p0" start="PT0S">
`, dur, l.Name())
	tmpl := func(ts int, nominalDur int, tl string) string {
		if l.Form == "timeline" {
			return fmt.Sprintf(`<SegmentTemplate initialization="$RepresentationID$/init.mp4" media="$RepresentationID$/$Time$.m4s" timescale="%d"><SegmentTimeline>%s</SegmentTimeline></SegmentTemplate>`, ts, tl)
		}
		if l.MPDSeconds {
			// the bundled testpic style: nominal duration in whole seconds, no @timescale (so the MPD timescale is 1, not the media timescale)
			secs := (nominalDur + ts/2) / ts
			if secs < 1 {
				secs = 1
			}
			return fmt.Sprintf(`<SegmentTemplate startNumber="%d" initialization="$RepresentationID$/init.mp4" media="$RepresentationID$/$Number$.m4s" duration="%d"/>`, l.StartNumber, secs)
		}
		return fmt.Sprintf(`<SegmentTemplate startNumber="%d" initialization="$RepresentationID$/init.mp4" media="$RepresentationID$/$Number$.m4s" timescale="%d" duration="%d"/>`, l.StartNumber, ts, nominalDur)
	}
	n := len(l.VSegFrames)
	if l.Audio != "" {
		codec := "mp4a.40.2"
		if l.Audio == "ac3" {
			codec = "ac-3"
		}
		fmt.Fprintf(&b, `    <AdaptationSet contentType="audio" mimeType="audio/mp4" lang="en" segmentAlignment="true" startWithSAP="1">
      %s
      <Representation id="A48" codecs="%s" bandwidth="48000" audioSamplingRate="48000"/>
    </AdaptationSet>
`, tmpl(48000, l.TotalAFrames()*l.AFrameDur()/len(l.ASegFrames), aTL), codec)
	}
	if l.Audio != "" && len(l.A2SegFrames) > 0 {
		kind2, fd2 := l.A2()
		codec2 := "mp4a.40.2"
		if kind2 == "ac3" {
			codec2 = "ac-3"
		}
		tot := 0
		for _, f := range l.A2SegFrames {
			tot += f
		}
		fmt.Fprintf(&b, `    <AdaptationSet contentType="audio" mimeType="audio/mp4" lang="sv" segmentAlignment="true" startWithSAP="1">
      %s
      <Representation id="A49" codecs="%s" bandwidth="96000" audioSamplingRate="48000"/>
    </AdaptationSet>
`, tmpl(48000, tot*fd2/len(l.A2SegFrames), a2TL), codec2)
	}
	fmt.Fprintf(&b, `    <AdaptationSet contentType="video" mimeType="video/mp4" segmentAlignment="true" startWithSAP="1">
      %s
      <Representation id="V300" codecs="%s" bandwidth="300000" width="640" height="360"/>%s
    </AdaptationSet>
`, tmpl(l.VTimescale, l.LoopTicks()/n, vTL), l.vcodec(), map[bool]string{true: "\n      <Representation id=\"V600\" codecs=\"" + l.vcodec() + "\" bandwidth=\"600000\" width=\"640\" height=\"360\"/>", false: ""}[l.V2Extra != 0])
	if l.V2Extra == 0 && l.V2Timescale != 0 {
		fmt.Fprintf(&b, `    <AdaptationSet contentType="video" mimeType="video/mp4" segmentAlignment="true" startWithSAP="1">
      %s
      <Representation id="V600" codecs="%s" bandwidth="600000" width="640" height="360"/>
    </AdaptationSet>
`, tmpl(l.V2Timescale, l.TotalVFrames()*l.V2FrameDur/n, v2TL), l.vcodec())
	}
	if l.Text {
		fmt.Fprintf(&b, `    <AdaptationSet contentType="text" mimeType="application/mp4" lang="en" segmentAlignment="true">
      <Role schemeIdUri="urn:mpeg:dash:role:2011" value="subtitle"/>
      %s
      <Representation id="T1" codecs="stpp" startWithSAP="1" bandwidth="10000"/>
    </AdaptationSet>
`, tmpl(1000, loopMS/n, tTL))
	}
	if l.Thumbs {
		fmt.Fprintf(&b, `    <AdaptationSet mimeType="image/jpeg" contentType="image">
      <SegmentTemplate media="$RepresentationID$/$Number$.jpg" duration="%d" timescale="%d" startNumber="1"/>
      <Representation bandwidth="10000" id="thumbs" width="160" height="90"/>
    </AdaptationSet>
`, l.VSegFrames[0]*l.VFrameDur, l.VTimescale)
	}
	b.WriteString("  </Period>\n</MPD>\n")
	if !l.ASCodecs {
		return b.String()
	}
	// move @codecs from the Representations of every adaptation set up to the AdaptationSet element
	codecsRe := regexp.MustCompile(` codecs="([^"]*)"`)
	sets := strings.Split(b.String(), "<AdaptationSet ")
	for i := 1; i < len(sets); i++ {
		if m := codecsRe.FindStringSubmatch(sets[i]); m != nil {
			sets[i] = "codecs=\"" + m[1] + "\" " + codecsRe.ReplaceAllString(sets[i], "")
		}
	}
	return strings.Join(sets, "<AdaptationSet ")
}
