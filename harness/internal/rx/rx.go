// Package rx builds CMAF-ingest receivers through the verif hook and synthesises uploads.
package rx

import (
	"bytes"
	"context"
	"fmt"
	"net/http"
	"net/http/httptest"
	"os"
	"path/filepath"
	"sync"

	rxapp "github.com/Dash-Industry-Forum/livesim2/cmd/cmaf-ingest-receiver/app"
	"github.com/Eyevinn/mp4ff/mp4"
	"verifharness/internal/ls"
)

const Prefix = "/upload"

// TrackKind describes one kind of track with the init segment taken from the repository's receiver test data.
type TrackKind struct {
	Ext       string
	InitFile  string
	Timescale uint32 // as uploaded
	OutScale  uint32 // as stored / listed (text tracks are rescaled to 1000)
	SampleDur uint32
}

var Kinds = map[string]TrackKind{
	"video": {Ext: ".cmfv", InitFile: "zero_3.84s/video-500Kbps/init_org.cmfv", Timescale: 50000, OutScale: 50000, SampleDur: 2000},
	"audio": {Ext: ".cmfa", InitFile: "zero_3.84s/audio-nor-128Kbps/init_org.cmfa", Timescale: 48000, OutScale: 48000, SampleDur: 1024},
	"text":  {Ext: ".cmft", InitFile: "zero_3.84s/text-nor-0/init_org.cmft", Timescale: 50000, OutScale: 1000, SampleDur: 10000},
}

var (
	initOnce sync.Once
	inits    = map[string][]byte{}
	initErr  error
)

func Init(kind string) ([]byte, error) {
	initOnce.Do(func() {
		for k, tk := range Kinds {
			b, err := os.ReadFile(filepath.Join(ls.RepoRoot(), "cmd/cmaf-ingest-receiver/app/testdata", tk.InitFile))
			if err != nil {
				initErr = err
				return
			}
			inits[k] = b
		}
	})
	return inits[kind], initErr
}

// MediaSeg builds a one-fragment media segment: sequence number seq, decode time dts, total duration dur (in the
// track's upload timescale) split into samples of the kind's sample duration; payload bytes derive from seed.
func MediaSeg(kind string, seq uint32, dts uint64, dur uint32, seed byte, styp bool) ([]byte, error) {
	tk := Kinds[kind]
	var seg *mp4.MediaSegment
	if styp {
		seg = mp4.NewMediaSegment()
	} else {
		seg = mp4.NewMediaSegmentWithoutStyp()
	}
	fr, err := mp4.CreateFragment(seq, 1)
	if err != nil {
		return nil, err
	}
	seg.AddFragment(fr)
	left := dur
	t := dts
	i := 0
	for left > 0 {
		d := tk.SampleDur
		if d > left {
			d = left
		}
		data := []byte{seed, byte(seq), byte(seq >> 8), byte(i), 0xAB}
		fr.AddFullSample(mp4.FullSample{Sample: mp4.Sample{Flags: mp4.SyncSampleFlags, Dur: d, Size: uint32(len(data))}, DecodeTime: t, Data: data})
		t += uint64(d)
		left -= d
		i++
	}
	var buf bytes.Buffer
	if err := seg.Encode(&buf); err != nil {
		return nil, err
	}
	return buf.Bytes(), nil
}

// MediaSegTwoChunks builds a segment of two moof+mdat chunks whose sample durations are carried as tfhd defaults that
// differ between the chunks: the first half of dur in samples of the kind's sample duration, the second half in samples 5/4 as
// long (dur must be a multiple of 10 sample durations).
func MediaSegTwoChunks(kind string, seq uint32, dts uint64, dur uint32, seed byte, styp bool) ([]byte, error) {
	tk := Kinds[kind]
	if dur%(10*tk.SampleDur) != 0 {
		return MediaSeg(kind, seq, dts, dur, seed, styp)
	}
	var seg *mp4.MediaSegment
	if styp {
		seg = mp4.NewMediaSegment()
	} else {
		seg = mp4.NewMediaSegmentWithoutStyp()
	}
	t := dts
	for ci, d := range []uint32{tk.SampleDur, tk.SampleDur * 5 / 4} {
		fr, err := mp4.CreateFragment(seq, 1)
		if err != nil {
			return nil, err
		}
		seg.AddFragment(fr)
		for i := uint32(0); i < dur/2/d; i++ {
			data := []byte{seed, byte(seq), byte(seq >> 8), byte(i), byte(0xA0 + ci)}
			fr.AddFullSample(mp4.FullSample{Sample: mp4.Sample{Flags: mp4.SyncSampleFlags, Dur: d, Size: uint32(len(data))}, DecodeTime: t, Data: data})
			t += uint64(d)
		}
		if err := fr.Moof.Traf.OptimizeTfhdTrun(); err != nil {
			return nil, err
		}
	}
	var buf bytes.Buffer
	if err := seg.Encode(&buf); err != nil {
		return nil, err
	}
	return buf.Bytes(), nil
}

type Receiver struct {
	R       *rxapp.Receiver
	Router  http.Handler
	Storage string
	Cancel  context.CancelFunc
}

func New(storage string, tsbdS uint64, cfg *rxapp.Config) (*Receiver, error) {
	ctx, cancel := context.WithCancel(context.Background())
	r, h, err := rxapp.VerifNewReceiver(ctx, storage, Prefix, tsbdS, 0, cfg)
	if err != nil {
		cancel()
		return nil, err
	}
	return &Receiver{R: r, Router: h, Storage: storage, Cancel: cancel}, nil
}

// Upload sends a body to the segment handler directly (not through the logging router).
func (r *Receiver) Upload(method, path string, body []byte, hdr map[string]string, contentLength bool) int {
	req := httptest.NewRequest(method, Prefix+path, bytes.NewReader(body))
	if !contentLength {
		req.ContentLength = -1
		req.Header.Del("Content-Length")
	} else {
		req.Header.Set("Content-Length", fmt.Sprint(len(body)))
	}
	for k, v := range hdr {
		req.Header.Set(k, v)
	}
	rr := httptest.NewRecorder()
	r.R.SegmentHandlerFunc(rr, req)
	return rr.Code
}
