// Package mpdx parses live MPDs with encoding/xml, independently of livesim2's own MPD code paths.
package mpdx

import (
	"encoding/xml"
	"fmt"
	"regexp"
	"strconv"
	"strings"
	"time"
)

type S struct {
	T *uint64 `xml:"t,attr"`
	D uint64  `xml:"d,attr"`
	R int     `xml:"r,attr"`
}

type Tmpl struct {
	Media       string  `xml:"media,attr"`
	Init        string  `xml:"initialization,attr"`
	Timescale   *uint64 `xml:"timescale,attr"`
	Duration    *uint64 `xml:"duration,attr"`
	StartNumber *uint64 `xml:"startNumber,attr"`
	EndNumber   *uint64 `xml:"endNumber,attr"`
	PTO         *uint64 `xml:"presentationTimeOffset,attr"`
	ATO         string  `xml:"availabilityTimeOffset,attr"`
	ATC         string  `xml:"availabilityTimeComplete,attr"`
	Timeline    *struct {
		S []S `xml:"S"`
	} `xml:"SegmentTimeline"`
}

func (t *Tmpl) TS() uint64 {
	if t.Timescale == nil {
		return 1
	}
	return *t.Timescale
}

func (t *Tmpl) PTOv() uint64 {
	if t.PTO == nil {
		return 0
	}
	return *t.PTO
}

type Descriptor struct {
	SchemeIdUri string `xml:"schemeIdUri,attr"`
	Value       string `xml:"value,attr"`
	DefaultKID  string `xml:"default_KID,attr"`
	Laurl       string `xml:"Laurl"`
	LaurlDashif string `xml:"laurl"`
	Pssh        string `xml:"pssh"`
}

type Rep struct {
	ID        string `xml:"id,attr"`
	Codecs    string `xml:"codecs,attr"`
	Bandwidth uint64 `xml:"bandwidth,attr"`
	MimeType  string `xml:"mimeType,attr"`
	Tmpl      *Tmpl  `xml:"SegmentTemplate"`
}

type AS struct {
	ID                 string       `xml:"id,attr"`
	ContentType        string       `xml:"contentType,attr"`
	MimeType           string       `xml:"mimeType,attr"`
	Codecs             string       `xml:"codecs,attr"`
	Lang               string       `xml:"lang,attr"`
	Tmpl               *Tmpl        `xml:"SegmentTemplate"`
	Reps               []Rep        `xml:"Representation"`
	ContentProtections []Descriptor `xml:"ContentProtection"`
	InbandEventStreams []Descriptor `xml:"InbandEventStream"`
	Supplemental       []Descriptor `xml:"SupplementalProperty"`
	Essential          []Descriptor `xml:"EssentialProperty"`
	Roles              []Descriptor `xml:"Role"`
}

// Kind returns the content type (attribute, or derived from mimeType/codecs).
func (a *AS) Kind() string {
	if a.ContentType != "" {
		return a.ContentType
	}
	switch a.MimeType {
	case "video/mp4":
		return "video"
	case "audio/mp4":
		return "audio"
	case "application/mp4":
		return "text"
	case "image/jpeg":
		return "image"
	}
	return ""
}

type Period struct {
	ID       string   `xml:"id,attr"`
	Start    string   `xml:"start,attr"`
	Duration string   `xml:"duration,attr"`
	BaseURLs []string `xml:"BaseURL"`
	AS       []AS     `xml:"AdaptationSet"`
}

type MPD struct {
	XMLName                   xml.Name `xml:"MPD"`
	ID                        string   `xml:"id,attr"`
	Type                      string   `xml:"type,attr"`
	PublishTime               string   `xml:"publishTime,attr"`
	AvailabilityStartTime     string   `xml:"availabilityStartTime,attr"`
	TimeShiftBufferDepth      string   `xml:"timeShiftBufferDepth,attr"`
	MinimumUpdatePeriod       string   `xml:"minimumUpdatePeriod,attr"`
	MediaPresentationDuration string   `xml:"mediaPresentationDuration,attr"`
	Periods                   []Period `xml:"Period"`
	PatchLocation             []struct {
		TTL   string `xml:"ttl,attr"`
		Value string `xml:",chardata"`
	} `xml:"PatchLocation"`
	Location []string `xml:"Location"`
	Raw      []byte   `xml:"-"`
}

func Parse(data []byte) (*MPD, error) {
	var m MPD
	if err := xml.Unmarshal(data, &m); err != nil {
		return nil, err
	}
	m.Raw = data
	return &m, nil
}

var durRe = regexp.MustCompile(`^P(?:(\d+)Y)?(?:(\d+)M)?(?:(\d+)D)?(?:T(?:(\d+)H)?(?:(\d+)M)?(?:(\d+(?:\.\d+)?)S)?)?$`)

// DurationMS parses an xs:duration into milliseconds (exact for up to 3 decimals; more decimals are an error).
func DurationMS(s string) (int64, error) {
	m := durRe.FindStringSubmatch(s)
	if m == nil || s == "P" || s == "PT" {
		return 0, fmt.Errorf("bad xs:duration %q", s)
	}
	if m[1] != "" || m[2] != "" {
		return 0, fmt.Errorf("years/months in xs:duration %q", s)
	}
	var ms int64
	atoi := func(x string) int64 { n, _ := strconv.ParseInt(x, 10, 64); return n }
	ms += atoi(m[3]) * 86400_000
	ms += atoi(m[4]) * 3600_000
	ms += atoi(m[5]) * 60_000
	if m[6] != "" {
		sec := m[6]
		frac := ""
		if i := strings.IndexByte(sec, '.'); i >= 0 {
			frac = sec[i+1:]
			sec = sec[:i]
		}
		ms += atoi(sec) * 1000
		if len(frac) > 3 {
			if strings.Trim(frac[3:], "0") != "" {
				return 0, fmt.Errorf("sub-millisecond xs:duration %q", s)
			}
			frac = frac[:3]
		}
		for len(frac) < 3 {
			frac += "0"
		}
		ms += atoi(frac)
	}
	return ms, nil
}

// TimeMS parses an xs:dateTime into Unix milliseconds.
func TimeMS(s string) (int64, error) {
	t, err := time.Parse(time.RFC3339Nano, s)
	if err != nil {
		return 0, err
	}
	return t.UnixMilli(), nil
}

// Decl is one segment declared by a SegmentTimeline.
type Decl struct {
	Nr uint64 // segment number (startNumber + index)
	T  uint64
	D  uint64
}

// Expand lists the segments declared explicitly by the SegmentTimeline (nil without a timeline).
func (t *Tmpl) Expand() ([]Decl, error) {
	if t.Timeline == nil {
		return nil, nil
	}
	nr := uint64(1)
	if t.StartNumber != nil {
		nr = *t.StartNumber
	}
	var out []Decl
	var tt uint64
	first := true
	for _, s := range t.Timeline.S {
		if s.T != nil {
			if !first && *s.T != tt {
				return nil, fmt.Errorf("SegmentTimeline not contiguous: S@t=%d after segment ending at %d", *s.T, tt)
			}
			tt = *s.T
		} else if first {
			return nil, fmt.Errorf("first S has no @t")
		}
		first = false
		if s.R < 0 {
			return nil, fmt.Errorf("negative @r")
		}
		for i := 0; i <= s.R; i++ {
			out = append(out, Decl{Nr: nr, T: tt, D: s.D})
			tt += s.D
			nr++
		}
	}
	return out, nil
}

// MediaURL resolves the media template for a representation id with number and time.
func (t *Tmpl) MediaURL(repID string, nr, tm uint64) string {
	m := strings.ReplaceAll(t.Media, "$RepresentationID$", repID)
	m = strings.ReplaceAll(m, "$Number$", strconv.FormatUint(nr, 10))
	return strings.ReplaceAll(m, "$Time$", strconv.FormatUint(tm, 10))
}

func (t *Tmpl) InitURL(repID string) string {
	return strings.ReplaceAll(t.Init, "$RepresentationID$", repID)
}
