// Package mp4x inspects served segments independently of livesim2 (mp4ff decoding only).
package mp4x

import (
	"bytes"
	"fmt"

	"github.com/Eyevinn/mp4ff/bits"
	"github.com/Eyevinn/mp4ff/mp4"
)

type Sample struct {
	DecodeTime uint64
	Dur        uint32
	Size       uint32
	Flags      uint32
	CTO        int32
	Data       []byte
}

type Frag struct {
	Seq     uint32
	Tfdt    uint64
	Samples []Sample
	Emsgs   []*mp4.EmsgBox
	Raw     *mp4.Fragment
}

type Seg struct {
	Styp   *mp4.StypBox
	Sidx   *mp4.SidxBox
	Frags  []Frag
	NrSegs int
}

// Parse decodes a media segment (possibly several styp+moof+mdat groups, as in chunked delivery).
func Parse(data []byte, trex *mp4.TrexBox) (*Seg, error) {
	f, err := mp4.DecodeFileSR(bits.NewFixedSliceReader(data))
	if err != nil {
		return nil, err
	}
	if len(f.Segments) == 0 {
		return nil, fmt.Errorf("no media segment")
	}
	out := &Seg{NrSegs: len(f.Segments)}
	for si, s := range f.Segments {
		if si == 0 {
			out.Styp = s.Styp
			out.Sidx = s.Sidx
		}
		for _, fr := range s.Fragments {
			if fr.Moof == nil || fr.Moof.Traf == nil || fr.Moof.Traf.Tfdt == nil || fr.Mdat == nil {
				return nil, fmt.Errorf("incomplete fragment")
			}
			fss, err := fr.GetFullSamples(trex)
			if err != nil {
				return nil, err
			}
			fg := Frag{Seq: fr.Moof.Mfhd.SequenceNumber, Tfdt: fr.Moof.Traf.Tfdt.BaseMediaDecodeTime(), Raw: fr}
			for _, c := range fr.Children {
				if e, ok := c.(*mp4.EmsgBox); ok {
					fg.Emsgs = append(fg.Emsgs, e)
				}
			}
			for _, fs := range fss {
				fg.Samples = append(fg.Samples, Sample{DecodeTime: fs.DecodeTime, Dur: fs.Dur, Size: fs.Size, Flags: fs.Flags, CTO: fs.CompositionTimeOffset, Data: fs.Data})
			}
			out.Frags = append(out.Frags, fg)
		}
	}
	return out, nil
}

// AllSamples concatenates the samples of all fragments.
func (s *Seg) AllSamples() []Sample {
	var out []Sample
	for _, f := range s.Frags {
		out = append(out, f.Samples...)
	}
	return out
}

func (s *Seg) Start() uint64 { return s.Frags[0].Tfdt }

func (s *Seg) End() uint64 {
	l := s.Frags[len(s.Frags)-1]
	e := l.Tfdt
	for _, sm := range l.Samples {
		e += uint64(sm.Dur)
	}
	return e
}

func (s *Seg) Dur() uint64 { return s.End() - s.Start() }

// SameMedia compares two sample lists (duration, size, flags, composition offset, payload); decode times optionally.
func SameMedia(a, b []Sample, withTimes bool) error {
	if len(a) != len(b) {
		return fmt.Errorf("%d samples vs %d", len(a), len(b))
	}
	for i := range a {
		x, y := a[i], b[i]
		if x.Dur != y.Dur || x.Size != y.Size || x.Flags != y.Flags || x.CTO != y.CTO {
			return fmt.Errorf("sample %d: dur/size/flags/cto %d/%d/%x/%d vs %d/%d/%x/%d", i, x.Dur, x.Size, x.Flags, x.CTO, y.Dur, y.Size, y.Flags, y.CTO)
		}
		if !bytes.Equal(x.Data, y.Data) {
			return fmt.Errorf("sample %d: payload differs", i)
		}
		if withTimes && x.DecodeTime != y.DecodeTime {
			return fmt.Errorf("sample %d: decode time %d vs %d", i, x.DecodeTime, y.DecodeTime)
		}
	}
	return nil
}

// FromFull converts mp4ff full samples.
func FromFull(fss []mp4.FullSample) []Sample {
	out := make([]Sample, len(fss))
	for i, fs := range fss {
		out[i] = Sample{DecodeTime: fs.DecodeTime, Dur: fs.Dur, Size: fs.Size, Flags: fs.Flags, CTO: fs.CompositionTimeOffset, Data: fs.Data}
	}
	return out
}
