// Package xmlpatch is an independent applier of XML patches (RFC 5261 add/replace/remove as used by DASH MPD
// patches) on a small DOM built with encoding/xml, plus a canonical comparison of documents.
package xmlpatch

import (
	"bytes"
	"encoding/xml"
	"fmt"
	"sort"
	"strconv"
	"strings"
)

type Attr struct{ Name, Value string }

type Node struct {
	Name     string
	Attrs    []Attr
	Children []*Node
	Text     string // concatenated character data (trimmed)
	Parent   *Node
}

func qname(n xml.Name) string {
	// namespaces are kept only as far as needed to tell attributes apart (xsi:schemaLocation vs schemaLocation)
	switch n.Space {
	case "", "urn:mpeg:dash:schema:mpd:2011", "urn:mpeg:dash:schema:mpd-patch:2020":
		return n.Local
	case "xmlns":
		return "xmlns:" + n.Local
	}
	return n.Space + ":" + n.Local
}

// Parse builds the DOM of a document.
func Parse(data []byte) (*Node, error) {
	dec := xml.NewDecoder(bytes.NewReader(data))
	var root, cur *Node
	for {
		tok, err := dec.Token()
		if err != nil {
			if root != nil && cur == nil {
				return root, nil
			}
			if err.Error() == "EOF" && root != nil {
				return root, nil
			}
			return nil, err
		}
		switch t := tok.(type) {
		case xml.StartElement:
			n := &Node{Name: qname(t.Name), Parent: cur}
			for _, a := range t.Attr {
				n.Attrs = append(n.Attrs, Attr{qname(a.Name), a.Value})
			}
			if cur == nil {
				root = n
			} else {
				cur.Children = append(cur.Children, n)
			}
			cur = n
		case xml.EndElement:
			cur.Text = strings.TrimSpace(cur.Text)
			cur = cur.Parent
		case xml.CharData:
			if cur != nil {
				cur.Text += string(t)
			}
		}
	}
}

func (n *Node) Attr(name string) (string, bool) {
	for _, a := range n.Attrs {
		if a.Name == name {
			return a.Value, true
		}
	}
	return "", false
}

func (n *Node) setAttr(name, v string) {
	for i := range n.Attrs {
		if n.Attrs[i].Name == name {
			n.Attrs[i].Value = v
			return
		}
	}
	n.Attrs = append(n.Attrs, Attr{name, v})
}

func (n *Node) delAttr(name string) bool {
	for i := range n.Attrs {
		if n.Attrs[i].Name == name {
			n.Attrs = append(n.Attrs[:i], n.Attrs[i+1:]...)
			return true
		}
	}
	return false
}

func (n *Node) Clone(parent *Node) *Node {
	c := &Node{Name: n.Name, Text: n.Text, Parent: parent, Attrs: append([]Attr{}, n.Attrs...)}
	for _, ch := range n.Children {
		c.Children = append(c.Children, ch.Clone(c))
	}
	return c
}

// Canon renders a canonical form: attributes sorted, whitespace-only text dropped, child order kept.
func (n *Node) Canon() string {
	var b strings.Builder
	n.canon(&b, 0)
	return b.String()
}

func (n *Node) canon(b *strings.Builder, depth int) {
	b.WriteString(strings.Repeat(" ", depth))
	b.WriteString("<" + n.Name)
	as := append([]Attr{}, n.Attrs...)
	sort.Slice(as, func(i, j int) bool { return as[i].Name < as[j].Name })
	for _, a := range as {
		if strings.HasPrefix(a.Name, "xmlns") {
			continue // namespace declarations are not part of the compared content
		}
		fmt.Fprintf(b, " %s=%q", a.Name, a.Value)
	}
	b.WriteString(">")
	if n.Text != "" {
		b.WriteString(n.Text)
	}
	b.WriteString("\n")
	for _, c := range n.Children {
		c.canon(b, depth+1)
	}
}

type step struct {
	name     string
	predAttr string
	predVal  string
	index    int // 1-based among same-name siblings, 0 = none
}

func parseSel(sel string) (steps []step, attr string, err error) {
	if !strings.HasPrefix(sel, "/") {
		return nil, "", fmt.Errorf("selector %q is not absolute", sel)
	}
	// split on '/' outside of quotes
	var parts []string
	cur := ""
	inQ := false
	for _, r := range sel[1:] {
		switch {
		case r == '\'':
			inQ = !inQ
			cur += string(r)
		case r == '/' && !inQ:
			parts = append(parts, cur)
			cur = ""
		default:
			cur += string(r)
		}
	}
	parts = append(parts, cur)
	for i, p := range parts {
		if strings.HasPrefix(p, "@") {
			if i != len(parts)-1 {
				return nil, "", fmt.Errorf("attribute step in the middle of %q", sel)
			}
			return steps, p[1:], nil
		}
		st := step{name: p}
		if j := strings.IndexByte(p, '['); j >= 0 {
			if !strings.HasSuffix(p, "]") {
				return nil, "", fmt.Errorf("bad predicate in %q", sel)
			}
			st.name = p[:j]
			pred := p[j+1 : len(p)-1]
			if strings.HasPrefix(pred, "@") {
				k, v, ok := strings.Cut(pred[1:], "=")
				if !ok || len(v) < 2 || v[0] != '\'' || v[len(v)-1] != '\'' {
					return nil, "", fmt.Errorf("bad predicate %q", pred)
				}
				st.predAttr, st.predVal = k, v[1:len(v)-1]
			} else {
				n, err := strconv.Atoi(pred)
				if err != nil || n < 1 {
					return nil, "", fmt.Errorf("bad positional predicate %q", pred)
				}
				st.index = n
			}
		}
		if st.name == "" {
			return nil, "", fmt.Errorf("empty step in %q", sel)
		}
		steps = append(steps, st)
	}
	return steps, "", nil
}

// Select resolves a selector to exactly one element (RFC 5261: a selector must match a single node).
func Select(root *Node, sel string) (*Node, string, error) {
	steps, attr, err := parseSel(sel)
	if err != nil {
		return nil, "", err
	}
	if len(steps) == 0 || steps[0].name != root.Name {
		return nil, "", fmt.Errorf("selector %q does not start at the root %s", sel, root.Name)
	}
	cur := root
	for _, st := range steps[1:] {
		var matches []*Node
		pos := 0
		for _, c := range cur.Children {
			if c.Name != st.name {
				continue
			}
			pos++
			switch {
			case st.predAttr != "":
				if v, ok := c.Attr(st.predAttr); ok && v == st.predVal {
					matches = append(matches, c)
				}
			case st.index > 0:
				if pos == st.index {
					matches = append(matches, c)
				}
			default:
				matches = append(matches, c)
			}
		}
		if len(matches) != 1 {
			return nil, "", fmt.Errorf("selector %q: step %s matches %d nodes", sel, st.name, len(matches))
		}
		cur = matches[0]
	}
	return cur, attr, nil
}

// Apply applies the operations of a patch document in order to a copy of doc.
func Apply(doc *Node, patch *Node) (*Node, int, error) {
	out := doc.Clone(nil)
	nOps := 0
	for _, op := range patch.Children {
		sel, ok := op.Attr("sel")
		if !ok {
			return nil, nOps, fmt.Errorf("%s without sel", op.Name)
		}
		target, attr, err := Select(out, sel)
		if err != nil {
			return nil, nOps, fmt.Errorf("%s: %w", op.Name, err)
		}
		nOps++
		switch op.Name {
		case "replace":
			if attr != "" {
				if _, ok := target.Attr(attr); !ok {
					return nil, nOps, fmt.Errorf("replace %s: attribute does not exist", sel)
				}
				target.setAttr(attr, op.Text)
				continue
			}
			if len(op.Children) != 1 || target.Parent == nil {
				return nil, nOps, fmt.Errorf("replace %s: needs exactly one element", sel)
			}
			p := target.Parent
			for i, c := range p.Children {
				if c == target {
					p.Children[i] = op.Children[0].Clone(p)
				}
			}
		case "remove":
			if attr != "" {
				if !target.delAttr(attr) {
					return nil, nOps, fmt.Errorf("remove %s: attribute does not exist", sel)
				}
				continue
			}
			p := target.Parent
			if p == nil {
				return nil, nOps, fmt.Errorf("remove of the root")
			}
			for i, c := range p.Children {
				if c == target {
					p.Children = append(p.Children[:i], p.Children[i+1:]...)
					break
				}
			}
		case "add":
			if t, ok := op.Attr("type"); ok && strings.HasPrefix(t, "@") {
				attr = t[1:]
			}
			if attr != "" {
				if _, ok := target.Attr(attr); ok {
					return nil, nOps, fmt.Errorf("add %s: attribute exists already", sel)
				}
				target.setAttr(attr, op.Text)
				continue
			}
			pos, _ := op.Attr("pos")
			var kids []*Node
			switch pos {
			case "", "prepend":
				for _, c := range op.Children {
					kids = append(kids, c.Clone(target))
				}
				if pos == "prepend" {
					target.Children = append(kids, target.Children...)
				} else {
					target.Children = append(target.Children, kids...)
				}
			case "before", "after":
				p := target.Parent
				if p == nil {
					return nil, nOps, fmt.Errorf("add %s pos=%s on the root", sel, pos)
				}
				for _, c := range op.Children {
					kids = append(kids, c.Clone(p))
				}
				for i, c := range p.Children {
					if c == target {
						at := i
						if pos == "after" {
							at = i + 1
						}
						p.Children = append(p.Children[:at], append(kids, p.Children[at:]...)...)
						break
					}
				}
			default:
				return nil, nOps, fmt.Errorf("add: unknown pos %q", pos)
			}
		default:
			return nil, nOps, fmt.Errorf("unknown operation %q", op.Name)
		}
	}
	return out, nOps, nil
}
