// Package refmodel is the reference timeline model of livesim2 written from the property statements
// (DESIGN.md §1/§5) in exact integer arithmetic. It never calls livesim2 code.
//
// Units: instants are compared in "U" = milliseconds * timescale of the timing representation, so that
// a media time of x ticks is x*1000 U and a wall-clock instant of m ms is m*ts U; everything stays integral.
package refmodel

import (
	"fmt"
	"math"
	"math/bits"
	"strconv"
	"strings"

	"verifharness/internal/vod"
)

const MarginS = 10 // documented timeShiftBufferDepthMarginS

// Cfg is the part of the URL configuration the timeline depends on.
type Cfg struct {
	Type   string `json:"type"`   // "number" | "time" (segtimeline_1) | "tlnr" (segtimelinenr_1)
	StartS int64  `json:"start"`  // availabilityStartTime, s
	Snr    int64  `json:"snr"`    // startNumber (default 0)
	TsbdS  int64  `json:"tsbd"`   // time shift buffer depth (default 60)
	AtoMS  int64  `json:"ato_ms"` // availabilityTimeOffset in ms; -1 = inf
	// which keys are put explicitly into the URL (defaults otherwise)
	HasStart bool `json:"has_start,omitempty"`
	HasSnr   bool `json:"has_snr,omitempty"`
	HasTsbd  bool `json:"has_tsbd,omitempty"`
	// Extra URL parts appended verbatim (e.g. "mup_1", "periods_60").
	Extra []string `json:"extra,omitempty"`
}

func DefaultCfg() Cfg { return Cfg{Type: "number", TsbdS: 60} }

func (c Cfg) AtoInf() bool { return c.AtoMS < 0 }

// Parts renders the URL parts of the configuration.
func (c Cfg) Parts() []string {
	var p []string
	switch c.Type {
	case "time":
		p = append(p, "segtimeline_1")
	case "tlnr":
		p = append(p, "segtimelinenr_1")
	}
	if c.HasStart || c.StartS != 0 {
		p = append(p, "start_"+strconv.FormatInt(c.StartS, 10))
	}
	if c.HasSnr || c.Snr != 0 {
		p = append(p, "snr_"+strconv.FormatInt(c.Snr, 10))
	}
	if c.HasTsbd || c.TsbdS != 60 {
		p = append(p, "tsbd_"+strconv.FormatInt(c.TsbdS, 10))
	}
	switch {
	case c.AtoInf():
		p = append(p, "ato_inf")
	case c.AtoMS > 0:
		p = append(p, "ato_"+FormatMS(c.AtoMS))
	}
	return append(p, c.Extra...)
}

// FormatMS renders ms as decimal seconds ("1500" -> "1.5").
func FormatMS(ms int64) string {
	s := fmt.Sprintf("%d.%03d", ms/1000, ms%1000)
	s = strings.TrimRight(s, "0")
	return strings.TrimSuffix(s, ".")
}

// Timeline is the looped timeline of one representation of an asset under a configuration.
// For audio the timing representation is the asset's reference (video) representation.
type Timeline struct {
	A   *vod.Asset
	Rep *vod.Rep // representation whose segment table drives numbering and availability
	Cfg Cfg
}

func NewTimeline(a *vod.Asset, rep *vod.Rep, cfg Cfg) *Timeline {
	t := rep
	if rep.ContentType == "audio" {
		t = a.Ref
	}
	return &Timeline{A: a, Rep: t, Cfg: cfg}
}

func (t *Timeline) N() int64  { return int64(len(t.Rep.Segs)) }
func (t *Timeline) TS() int64 { return int64(t.Rep.Timescale) }

// LoopTicks is the loop duration in the timing representation's timescale.
func (t *Timeline) LoopTicks() int64 { return int64(t.A.LoopMS) * t.TS() / 1000 }

// Split returns wrap w and VoD index i of live segment n (n counted from availabilityStartTime).
func (t *Timeline) Split(n int64) (w, i int64) { return n / t.N(), n % t.N() }

// Start and End of live segment n in media ticks (relative to availabilityStartTime).
func (t *Timeline) Start(n int64) int64 {
	w, i := t.Split(n)
	return w*t.LoopTicks() + int64(t.Rep.Segs[i].Start)
}

func (t *Timeline) End(n int64) int64 {
	w, i := t.Split(n)
	return w*t.LoopTicks() + int64(t.Rep.Segs[i].End)
}

// Number is the segment number of live segment n.
func (t *Timeline) Number(n int64) int64 { return t.Cfg.Snr + n }

// IndexAtTime returns the live index n whose start equals media time tt, or -1.
func (t *Timeline) IndexAtTime(tt int64) int64 {
	w := tt / t.LoopTicks()
	rel := tt - w*t.LoopTicks()
	for i, s := range t.Rep.Segs {
		if int64(s.Start) == rel {
			return w*t.N() + int64(i)
		}
	}
	return -1
}

// AvailU is the availability instant A_n in U (ms*ts): AST + end(n) - ato, clipped to AST for ato=inf.
func (t *Timeline) AvailU(n int64) int64 {
	ast := t.Cfg.StartS * 1000 * t.TS()
	if t.Cfg.AtoInf() {
		return ast
	}
	return ast + t.End(n)*1000 - t.Cfg.AtoMS*t.TS()
}

func (t *Timeline) NowU(nowMS int64) int64 { return nowMS * t.TS() }

// TolU is the tolerance around a breakpoint that is not a whole second: 0.01 ms (float64 seconds at
// epoch magnitude resolve ~0.25 µs; a breakpoint closer than that to an integer ms may go either way).
func (t *Timeline) TolU() int64 {
	tol := t.TS() / 100
	if tol < 1 {
		tol = 1
	}
	return tol
}

// WholeSecond reports whether instant u (in U) is a whole number of seconds.
func (t *Timeline) WholeSecond(u int64) bool { return u%(1000*t.TS()) == 0 }

// Phase is the expected answer for a request of live segment n at nowMS.
type Phase struct {
	Want   int   // 425, 200, 410, or 0 when Either is set
	Either []int // acceptable statuses when the instant is inside a tolerance window / the optional margin
	// RemainMS is the expected number in the 425 body (ms until available), valid when Want==425.
	RemainMS int64
}

func (p Phase) Accepts(code int) bool {
	if p.Want != 0 {
		return code == p.Want
	}
	for _, c := range p.Either {
		if c == code {
			return true
		}
	}
	return false
}

func (p Phase) String() string {
	if p.Want != 0 {
		return strconv.Itoa(p.Want)
	}
	return fmt.Sprint(p.Either)
}

// PhaseAt: 425 iff now < A_n (and always before AST); 200 on [A_n, A_n+tsbd]; between A_n+tsbd and
// A_n+tsbd+1h either 200 or 410 ("at least tsbd": the documented margin is 10 s, not asserted exactly); 410 after.
// goneSlackS is the stretch after A_n+tsbd in which 200 and 410 are both accepted.
func (t *Timeline) PhaseAt(n, nowMS int64, goneSlackS int64) Phase {
	ts := t.TS()
	now := t.NowU(nowMS)
	ast := t.Cfg.StartS * 1000 * ts
	if now < ast {
		return Phase{Want: 425, RemainMS: -1}
	}
	if t.Cfg.AtoInf() {
		return Phase{Want: 200}
	}
	a := t.AvailU(n)
	tol := t.TolU()
	if a < ast {
		// available from stream start at the latest; with ato larger than the segment end the code keeps A_n (< AST)
		// for the gone computation. Before-AST is handled above, so only the gone side matters here.
	}
	exact := t.WholeSecond(a)
	switch {
	case now < a:
		if !exact && a-now < tol {
			return Phase{Either: []int{425, 200}}
		}
		return Phase{Want: 425, RemainMS: int64(math.Round(float64(a-now) / float64(ts)))}
	case now == a && !exact:
		return Phase{Either: []int{425, 200}}
	}
	gone := a + t.Cfg.TsbdS*1000*ts
	if now <= gone {
		return Phase{Want: 200}
	}
	if now <= gone+goneSlackS*1000*ts {
		return Phase{Either: []int{200, 410}}
	}
	return Phase{Want: 410}
}

// LastAvailable returns the newest n with A_n <= now (exact), -1 if none; ambiguous is true when
// the next segment's A lies within tolerance of now (then n+1 is acceptable as well).
func (t *Timeline) LastAvailable(nowMS int64) (n int64, ambiguous bool) {
	now := t.NowU(nowMS)
	ast := t.Cfg.StartS * 1000 * t.TS()
	if now < ast || t.Cfg.AtoInf() {
		return -1, false
	}
	// end(n) <= (now-ast)/1000 + ato  (ticks)
	lim := now - ast + t.Cfg.AtoMS*t.TS() // U
	if lim < 0 {
		return -1, false
	}
	loopU := t.LoopTicks() * 1000
	w := lim / loopU
	n = w*t.N() - 1
	for i := int64(0); i < t.N(); i++ {
		if (w*t.LoopTicks()+int64(t.Rep.Segs[i].End))*1000 <= lim {
			n = w*t.N() + i
		}
	}
	if n >= 0 {
		an := t.AvailU(n)
		if !t.WholeSecond(an) && now-an < t.TolU() {
			ambiguous = true
		}
	}
	nx := t.AvailU(n + 1)
	if !t.WholeSecond(nx) && nx-now < t.TolU() {
		ambiguous = true
	}
	return n, ambiguous
}

// AudioTime maps a reference-track time to the first audio frame boundary at or after it (audio ticks).
func AudioTime(refTicks, refTS int64, arep *vod.Rep) int64 {
	fd := uint64(arep.SampleDur)
	ats := uint64(arep.Timescale)
	// refTicks*ats can exceed 64 bits for far-future instants: 128-bit product
	hi, lo := bits.Mul64(uint64(refTicks), ats)
	q, rem := bits.Div64(hi, lo, uint64(refTS)) // q = floor(refTicks*ats/refTS)
	a := q / fd * fd
	if a < q || (a == q && rem != 0) {
		a += fd
	}
	return int64(a)
}

// SegName returns the name (relative to the asset) under which live segment n of rep is requested
// with the configuration's addressing mode. Images are always addressed by number.
func (t *Timeline) SegName(rep *vod.Rep, n int64) string {
	byTime := t.Cfg.Type == "time" && rep.ContentType != "image"
	if !byTime {
		return rep.MediaName(uint64(t.Number(n)), false)
	}
	if rep.ContentType == "audio" {
		return rep.MediaName(uint64(AudioTime(t.Start(n), t.TS(), rep)), true)
	}
	return rep.MediaName(uint64(t.Start(n)), true)
}

// ExactInstant reports whether availability instant u is computed without rounding by any arithmetic:
// a whole second reached with a whole-second ato.
func (t *Timeline) ExactInstant(u int64) bool {
	return t.WholeSecond(u) && (t.Cfg.AtoMS%1000 == 0)
}

// NewestRange returns the range [lo,hi] of live indices acceptable as "newest segment that has ended (less ato)"
// at nowMS: the exact answer, widened by one when an availability instant that is not exact lies within tolU of now
// (the MPD path truncates now and ato to media ticks, the segment path uses float64 seconds).
func (t *Timeline) NewestRange(nowMS, tolU int64) (lo, hi int64) {
	n, _ := t.LastAvailable(nowMS)
	lo, hi = n, n
	now := t.NowU(nowMS)
	if n >= 0 {
		if an := t.AvailU(n); !t.ExactInstant(an) && now-an < tolU {
			lo = n - 1
		}
	}
	if !t.Cfg.AtoInf() && now >= t.Cfg.StartS*1000*t.TS() {
		if nx := t.AvailU(n + 1); !t.ExactInstant(nx) && nx-now < tolU {
			hi = n + 1
		}
	}
	return lo, hi
}
