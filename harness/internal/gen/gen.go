// Package gen holds the shared rapid generators: targets (bundled or generated assets), URL
// configurations, live segment indices in structured regimes, and instants around breakpoints.
// Integer draws are composed from regimes because rapid's integer generators are biased to small values.
package gen

import (
	"pgregory.net/rapid"
	"verifharness/internal/assetgen"
	"verifharness/internal/env"
	"verifharness/internal/refmodel"
	"verifharness/internal/vod"
)

// Target draws a bundled asset (probability ~ bundledPct %) or a generated layout.
func Target(t *rapid.T, o assetgen.Opts, bundledPct int, bundled []string) env.Target {
	if len(bundled) == 0 {
		bundled = env.BundledAssets
	}
	// a weighted coin built from SampledFrom: rapid's IntRange is biased towards small values
	coin := make([]bool, 20)
	for i := range coin {
		coin[i] = (i*7%20)*5 < bundledPct // spread evenly over the indices
	}
	if rapid.SampledFrom(coin).Draw(t, "bundled?") {
		return env.Target{Asset: rapid.SampledFrom(bundled).Draw(t, "asset")}
	}
	l := assetgen.Gen(t, o)
	return env.Target{Layout: &l}
}

// StartS draws an availabilityStartTime regime.
func StartS(t *rapid.T) int64 {
	switch rapid.SampledFrom([]string{"zero", "zero", "small", "mid", "epoch", "epoch-aligned"}).Draw(t, "start-regime") {
	case "small":
		return int64(rapid.IntRange(1, 600).Draw(t, "start"))
	case "mid":
		return int64(rapid.IntRange(1000, 1000000).Draw(t, "start"))
	case "epoch":
		return 1_600_000_000 + int64(rapid.IntRange(0, 170_000_000).Draw(t, "start"))
	case "epoch-aligned":
		return 1_700_000_000 + 3600*int64(rapid.IntRange(0, 20000).Draw(t, "start-h"))
	}
	return 0
}

// Cfg draws type/start/snr/tsbd/ato. segMS is the (average) segment duration, used for ato fractions.
func Cfg(t *rapid.T, types []string, segMS int64, withAto bool) refmodel.Cfg {
	c := refmodel.DefaultCfg()
	c.Type = rapid.SampledFrom(types).Draw(t, "type")
	c.StartS = StartS(t)
	c.HasStart = c.StartS != 0 || rapid.Bool().Draw(t, "explicit-start")
	c.Snr = rapid.SampledFrom([]int64{0, 0, 1, 1, 7, 1000000}).Draw(t, "snr")
	c.HasSnr = c.Snr != 0
	switch rapid.SampledFrom([]string{"default", "zero", "one", "few", "long", "max"}).Draw(t, "tsbd-regime") {
	case "zero":
		c.TsbdS = 0
	case "one":
		c.TsbdS = 1
	case "few":
		c.TsbdS = (segMS*int64(rapid.IntRange(1, 8).Draw(t, "tsbd-segs")) + 999) / 1000
	case "long":
		c.TsbdS = int64(rapid.IntRange(300, 7200).Draw(t, "tsbd"))
	case "max":
		c.TsbdS = 48 * 3600
	}
	c.HasTsbd = c.TsbdS != 60
	if withAto {
		switch rapid.SampledFrom([]string{"none", "none", "quarter", "half", "almost", "over", "inf"}).Draw(t, "ato-regime") {
		case "quarter":
			c.AtoMS = segMS / 4
		case "half":
			c.AtoMS = segMS / 2
		case "almost":
			c.AtoMS = segMS - segMS/20
		case "over":
			c.AtoMS = segMS + segMS/2
		case "inf":
			c.AtoMS = -1
		}
	}
	return c
}

// Index draws a live segment index n >= 0 for a timeline with N segments per loop: right after start,
// around loop wraps, at year-2026 distance (tfdt beyond 2^32 for usual timescales) and far future.
func Index(t *rapid.T, tl *refmodel.Timeline, startS int64) (n int64, regime string) {
	N := tl.N()
	loopMS := int64(tl.A.LoopMS)
	regimes := []string{"first", "first", "wrap", "wrap", "manywraps"}
	if startS < 1_000_000 {
		regimes = append(regimes, "epoch2026", "epoch2026", "far2090")
	}
	regime = rapid.SampledFrom(regimes).Draw(t, "n-regime")
	switch regime {
	case "first":
		n = int64(rapid.IntRange(0, int(3*N)).Draw(t, "n"))
	case "wrap":
		k := rapid.SampledFrom([]int64{1, 2, 3, 10, 1000}).Draw(t, "wrap-k")
		n = k*N + int64(rapid.IntRange(-2, 2).Draw(t, "wrap-d"))
	case "manywraps":
		n = int64(rapid.IntRange(0, 2_000_000).Draw(t, "wraps"))*N + int64(rapid.IntRange(0, int(N)-1).Draw(t, "i"))
	case "epoch2026":
		w := (1_770_000_000 - startS) * 1000 / loopMS
		n = (w+int64(rapid.IntRange(0, 100000).Draw(t, "dw")))*N + int64(rapid.IntRange(0, int(N)-1).Draw(t, "i"))
	case "far2090":
		w := (3_780_000_000 - startS) * 1000 / loopMS
		n = (w+int64(rapid.IntRange(0, 100000).Draw(t, "dw")))*N + int64(rapid.IntRange(0, int(N)-1).Draw(t, "i"))
	}
	if n < 0 {
		n = 0
	}
	// segment numbers are 32 bit in ISO BMFF (mfhd.sequence_number): keep snr+n below 2^32
	if lim := int64(1<<32) - 200000 - tl.Cfg.Snr; n > lim {
		n = lim - int64(rapid.IntRange(0, 1000).Draw(t, "back"))
		regime = "near-2^32"
	}
	return n, regime
}

// Delta draws an offset (ms) around a breakpoint: the breakpoint itself, +-1, +-2 ms, or up to +-span.
func Delta(t *rapid.T, spanMS int64) int64 {
	switch rapid.SampledFrom([]string{"0", "-1", "+1", "-2", "+2", "before", "after"}).Draw(t, "delta") {
	case "-1":
		return -1
	case "+1":
		return 1
	case "-2":
		return -2
	case "+2":
		return 2
	case "before":
		return -int64(rapid.IntRange(3, int(spanMS)+3).Draw(t, "d"))
	case "after":
		return int64(rapid.IntRange(3, int(spanMS)+3).Draw(t, "d"))
	}
	return 0
}

// RepOfKinds draws a representation id of one of the wanted content types from the asset.
func RepOfKinds(t *rapid.T, a *vod.Asset, kinds ...string) *vod.Rep {
	var ids []string
	for _, id := range a.RepIDs() {
		for _, k := range kinds {
			if a.Reps[id].ContentType == k {
				ids = append(ids, id)
			}
		}
	}
	if len(ids) == 0 {
		return nil
	}
	return a.Reps[rapid.SampledFrom(ids).Draw(t, "rep")]
}

// CeilDivU converts an instant in U (ms*ts) to the first whole ms at or after it.
func CeilDivU(u, ts int64) int64 {
	if u >= 0 {
		return (u + ts - 1) / ts
	}
	return -((-u) / ts)
}
