// Package hx is the core of the verification harness: per-run bookkeeping
// (evidence counters, samples, non-trivial de-duplication), known-finding
// matching, replay files and rapid configuration.
//
// Every property test has the shape
//
//	run := hx.Start(t, "C04")
//	defer run.Finish()
//	if run.Replaying() { ...decode case, check it... ; return }
//	run.Rapid(t, quickChecks, thoroughChecks, func(rt *rapid.T) {
//	    c := genCase(rt)
//	    if v := checkCase(c); v != nil { run.Fail(rt, c, v) }
//	})
//
// A run is a pure function of the code under test and of VERIF_SEED/VERIF_SHARD.
package hx

import (
	"crypto/sha256"
	"encoding/hex"
	"encoding/json"
	"flag"
	"fmt"
	"os"
	"path/filepath"
	"sort"
	"strconv"
	"sync"
	"testing"
	"time"

	"pgregory.net/rapid"
)

// Violation describes a failed oracle. Kind is the symptom class; when it names
// a known-finding id (prefix "KF-") the run consults known_findings.json.
type Violation struct {
	Kind string `json:"kind"`
	Msg  string `json:"msg"`
}

func V(kind, format string, args ...any) *Violation {
	return &Violation{Kind: kind, Msg: fmt.Sprintf(format, args...)}
}

func (v *Violation) Error() string { return v.Kind + ": " + v.Msg }

type finding struct {
	ID       string `json:"id"`
	Property string `json:"property"`
	Status   string `json:"status"`
	What     string `json:"what"`
	Replay   string `json:"replay"`
}

type failure struct {
	Test string          `json:"test"`
	Kind string          `json:"kind"`
	Msg  string          `json:"msg"`
	Case json.RawMessage `json:"case"`
}

// Run is the bookkeeping of one test process for one property.
type Run struct {
	mu        sync.Mutex
	t         *testing.T
	Prop      string
	Tier      string
	Seed      int
	Shard     int
	start     time.Time
	evals     int
	classes   map[string]int
	nontriv   map[string]struct{}
	samples   []any
	maxSample int
	excluded  map[string]int
	notes     map[string]any
	open      map[string]finding
	fail      *failure
	requested map[string]int
	ran       map[string]int
	essential []string
	curTest   string
	replay    string
}

func envInt(k string, d int) int {
	if v := os.Getenv(k); v != "" {
		n, err := strconv.Atoi(v)
		if err == nil {
			return n
		}
	}
	return d
}

// Root returns /verif (overridable for tests of the harness itself).
func Root() string {
	if r := os.Getenv("VERIF_ROOT"); r != "" {
		return r
	}
	return "/verif"
}

func Start(t *testing.T, prop string) *Run {
	r := &Run{t: t, Prop: prop, Tier: os.Getenv("VERIF_TIER"), Seed: envInt("VERIF_SEED", 1), Shard: envInt("VERIF_SHARD", 0),
		start: time.Now(), classes: map[string]int{}, nontriv: map[string]struct{}{}, excluded: map[string]int{},
		notes: map[string]any{}, open: map[string]finding{}, maxSample: 12, requested: map[string]int{}, ran: map[string]int{},
		curTest: t.Name(), replay: os.Getenv("VERIF_REPLAY")}
	if r.Tier == "" {
		r.Tier = "quick"
	}
	data, err := os.ReadFile(filepath.Join(Root(), "known_findings.json"))
	if err == nil {
		var kf struct {
			Findings []finding `json:"findings"`
		}
		if err := json.Unmarshal(data, &kf); err != nil {
			t.Fatalf("known_findings.json: %v", err)
		}
		for _, f := range kf.Findings {
			if f.Status == "open" && f.Property == prop {
				r.open[f.ID] = f
			}
		}
	}
	return r
}

func (r *Run) Thorough() bool { return r.Tier == "thorough" }

// Pick returns q in the quick tier and th in the thorough tier.
func (r *Run) Pick(q, th int) int {
	if r.Thorough() {
		return th
	}
	return q
}

// RapidSeed is the rapid seed of this process: never 0 (0 means random in rapid).
func (r *Run) RapidSeed(sub int) uint64 {
	return uint64(r.Seed)*1000003 + uint64(r.Shard)*1009 + uint64(sub)*17 + 1
}

// Replaying reports whether this process re-evaluates one stored case.
func (r *Run) Replaying() bool { return r.replay != "" }

// ReplayCase decodes the stored case into v. It returns the test name the case belongs to.
func (r *Run) ReplayCase(v any) string {
	data, err := os.ReadFile(r.replay)
	if err != nil {
		r.t.Fatalf("replay file: %v", err)
	}
	var f failure
	if err := json.Unmarshal(data, &f); err != nil {
		r.t.Fatalf("replay file: %v", err)
	}
	if v != nil {
		if err := json.Unmarshal(f.Case, v); err != nil {
			r.t.Fatalf("replay case: %v", err)
		}
	}
	return f.Test
}

// ReplayTest returns the name of the test a replay file belongs to ("" when not replaying).
func (r *Run) ReplayTest() string {
	if !r.Replaying() {
		return ""
	}
	return r.ReplayCase(nil)
}

// Rapid runs prop under rapid with a pinned seed and tier-dependent case count.
// sub distinguishes several rapid runs inside one property.
func (r *Run) Rapid(t *testing.T, sub int, quick, thorough int, prop func(*rapid.T)) {
	n := r.Pick(quick, thorough)
	if v := envInt("VERIF_CHECKS_PCT", 100); v != 100 {
		n = n * v / 100
		if n < 1 {
			n = 1
		}
	}
	_ = os.RemoveAll("testdata/rapid")
	must(flag.Set("rapid.checks", strconv.Itoa(n)))
	must(flag.Set("rapid.seed", strconv.FormatUint(r.RapidSeed(sub), 10)))
	must(flag.Set("rapid.nofailfile", "true"))
	must(flag.Set("rapid.shrinktime", r.shrinkTime()))
	r.mu.Lock()
	r.curTest = t.Name()
	r.requested[t.Name()] += n
	r.mu.Unlock()
	rapid.Check(t, func(rt *rapid.T) {
		prop(rt)
		r.mu.Lock()
		r.ran[t.Name()]++
		r.mu.Unlock()
	})
}

func (r *Run) shrinkTime() string {
	if v := os.Getenv("VERIF_SHRINKTIME"); v != "" {
		return v
	}
	return "20s"
}

func must(err error) {
	if err != nil {
		panic(err)
	}
}

// Eval counts one evaluated case and its class labels.
func (r *Run) Eval(classes ...string) {
	r.mu.Lock()
	r.evals++
	for _, c := range classes {
		r.classes[c]++
	}
	r.mu.Unlock()
}

// Class counts class labels without counting an evaluation.
func (r *Run) Class(classes ...string) {
	r.mu.Lock()
	for _, c := range classes {
		r.classes[c]++
	}
	r.mu.Unlock()
}

// NonTrivial records a case that is non-trivial by the property's rule; key identifies the case.
func (r *Run) NonTrivial(key any) {
	b, _ := json.Marshal(key)
	h := sha256.Sum256(b)
	r.mu.Lock()
	r.nontriv[hex.EncodeToString(h[:8])] = struct{}{}
	r.mu.Unlock()
}

// Sample keeps up to maxSample cases: the first few and then every 2^k-th.
func (r *Run) Sample(v any) {
	r.mu.Lock()
	defer r.mu.Unlock()
	if len(r.samples) < r.maxSample {
		r.samples = append(r.samples, v)
		return
	}
	n := r.evals
	if n&(n-1) == 0 { // power of two
		r.samples[n%r.maxSample] = v
	}
}

func (r *Run) Note(k string, v any) {
	r.mu.Lock()
	r.notes[k] = v
	r.mu.Unlock()
}

// Essential declares classes that must be non-empty for the run to count (vacuity guard).
func (r *Run) Essential(classes ...string) {
	r.mu.Lock()
	r.essential = append(r.essential, classes...)
	r.mu.Unlock()
}

// Excused reports whether v is explained by an open known finding; if so it is counted.
func (r *Run) Excused(v *Violation) bool {
	if v == nil {
		return false
	}
	r.mu.Lock()
	defer r.mu.Unlock()
	if _, ok := r.open[v.Kind]; ok {
		r.excluded[v.Kind]++
		return true
	}
	return false
}

// KnownOpen reports whether the finding id is listed as open (used to exclude an input class by construction).
func (r *Run) KnownOpen(id string) bool {
	r.mu.Lock()
	defer r.mu.Unlock()
	_, ok := r.open[id]
	return ok
}

// CountExcluded counts a case that was excluded by construction because of an open finding.
func (r *Run) CountExcluded(id string) {
	r.mu.Lock()
	r.excluded[id]++
	r.mu.Unlock()
}

type fataler interface {
	Fatalf(format string, args ...any)
}

// Fail records the failing case (the last one recorded is the shrunk one) and fails the test.
func (r *Run) Fail(t fataler, c any, v *Violation) {
	if r.Excused(v) {
		return
	}
	b, err := json.Marshal(c)
	if err != nil {
		b, _ = json.Marshal(fmt.Sprintf("%+v", c))
	}
	r.mu.Lock()
	r.fail = &failure{Test: r.curTest, Kind: v.Kind, Msg: v.Msg, Case: b}
	r.mu.Unlock()
	t.Fatalf("VERIF-FAIL %s: %s", v.Kind, v.Msg)
}

// Journal stores the case about to be executed (VERIF_WORKDIR/journal.json): when the code under test kills the
// whole process (panic on a goroutine of its own) the driver takes the journal as the replay file.
func (r *Run) Journal(c any) {
	dir := os.Getenv("VERIF_WORKDIR")
	if dir == "" {
		return
	}
	b, err := json.Marshal(c)
	if err != nil {
		return
	}
	f := failure{Test: r.curTest, Kind: "process-died", Msg: "the test process died while executing this case", Case: b}
	fb, _ := json.Marshal(f)
	_ = os.WriteFile(filepath.Join(dir, "journal.json"), fb, 0o644)
}

// Finish writes the evidence fragment (and the failing case, if any). Deferred by every test.
func (r *Run) Finish() {
	if p := recover(); p != nil {
		// a panic outside rapid: report as failure of the harness, not as violation
		r.Note("panic", fmt.Sprint(p))
		defer panic(p)
	}
	r.mu.Lock()
	defer r.mu.Unlock()
	out := os.Getenv("VERIF_FRAGMENT")
	if out == "" {
		return
	}
	missing := []string{}
	for _, c := range r.essential {
		if r.classes[c] == 0 {
			missing = append(missing, c)
		}
	}
	sort.Strings(missing)
	frag := map[string]any{
		"property": r.Prop, "tier": r.Tier, "seed": r.Seed, "shard": r.Shard,
		"evaluations": r.evals, "classes": r.classes, "nontrivial": keys(r.nontriv),
		"samples": r.samples, "excluded": r.excluded, "notes": r.notes,
		"requested": r.requested, "ran": r.ran, "missing_essential": missing,
		"wall_s": time.Since(r.start).Seconds(), "failure": r.fail,
	}
	// several Test functions of one process append to the same fragment file
	var all []any
	if data, err := os.ReadFile(out); err == nil {
		_ = json.Unmarshal(data, &all)
	}
	all = append(all, frag)
	b, _ := json.MarshalIndent(all, "", " ")
	if err := os.WriteFile(out, b, 0o644); err != nil {
		fmt.Fprintf(os.Stderr, "hx: cannot write fragment: %v\n", err)
	}
}

func keys(m map[string]struct{}) []string {
	ks := make([]string, 0, len(m))
	for k := range m {
		ks = append(ks, k)
	}
	sort.Strings(ks)
	return ks
}
