// Package env hands out (server, asset model) pairs for bundled and generated assets.
package env

import (
	"fmt"
	"os"
	"path/filepath"
	"sync"

	"verifharness/internal/assetgen"
	"verifharness/internal/ls"
	"verifharness/internal/vod"
)

// BundledAssets are the asset paths shipped with the repository's tests.
var BundledAssets = []string{
	"testpic_2s", "testpic_6s", "testpic_8s", "testpic_alt_seg_dur_stl", "bbb_hevc_ac3_8s",
	"WAVE/vectors/cfhd_sets/12.5_25_50/t3/2022-10-17", "WAVE/vectors/cfhd_sets/14.985_29.97_59.94/t1/2022-10-17",
}

// Target names an asset: a bundled one (Asset) or a generated layout.
type Target struct {
	Asset  string           `json:"asset,omitempty"`
	Layout *assetgen.Layout `json:"layout,omitempty"`
}

func (t Target) Name() string {
	if t.Layout != nil {
		return t.Layout.Name()
	}
	return t.Asset
}

type Env struct {
	Srv   *ls.Server
	Asset *vod.Asset
}

var (
	mu       sync.Mutex
	cache    = map[string]*Env{}
	order    []string
	genRoot  string
	bundledV = map[string]*vod.Asset{}
)

// GenRoot is the per-process directory generated assets are materialised in (under TMPDIR, removed by the driver).
func GenRoot() string {
	if genRoot == "" {
		d, err := os.MkdirTemp("", "vodgen")
		if err != nil {
			panic(err)
		}
		genRoot = d
	}
	return genRoot
}

const maxCached = 48

// Get returns the environment of a target. A failure here is a harness/generator problem, never a violation.
func Get(t Target) (*Env, error) {
	mu.Lock()
	defer mu.Unlock()
	key := t.Name()
	if e, ok := cache[key]; ok {
		return e, nil
	}
	var e *Env
	if t.Layout == nil {
		s, err := ls.Bundled()
		if err != nil {
			return nil, err
		}
		a, ok := bundledV[t.Asset]
		if !ok {
			a, err = vod.Load(ls.BundledRoot, t.Asset)
			if err != nil {
				return nil, err
			}
			bundledV[t.Asset] = a
		}
		e = &Env{Srv: s, Asset: a}
		cache[key] = e
		return e, nil
	}
	root := filepath.Join(GenRoot(), key)
	if err := os.MkdirAll(root, 0o755); err != nil {
		return nil, err
	}
	if _, err := t.Layout.Materialize(root); err != nil {
		return nil, fmt.Errorf("materialize: %w", err)
	}
	s, err := ls.New(root)
	if err != nil {
		return nil, fmt.Errorf("generated layout %s does not load: %w", key, err)
	}
	a, err := vod.Load(root, key)
	if err != nil {
		return nil, err
	}
	e = &Env{Srv: s, Asset: a}
	cache[key] = e
	order = append(order, key)
	if len(order) > maxCached {
		old := order[0]
		order = order[1:]
		delete(cache, old)
		_ = os.RemoveAll(filepath.Join(GenRoot(), old))
	}
	return e, nil
}
