module verifharness

go 1.23.0

require (
	github.com/Dash-Industry-Forum/livesim2 v0.0.0
	github.com/Eyevinn/mp4ff v0.47.0
	github.com/go-chi/chi/v5 v5.2.1
	pgregory.net/rapid v1.3.0
)

require (
	github.com/Comcast/gots/v2 v2.2.1 // indirect
	github.com/Eyevinn/dash-mpd v0.12.0 // indirect
	github.com/barkimedes/go-deepcopy v0.0.0-20220514131651-17c30cfc62df // indirect
	github.com/beevik/etree v1.5.0 // indirect
	github.com/beorn7/perks v1.0.1 // indirect
	github.com/caddyserver/certmagic v0.22.0 // indirect
	github.com/caddyserver/zerossl v0.1.3 // indirect
	github.com/cespare/xxhash/v2 v2.3.0 // indirect
	github.com/danielgtaylor/huma/v2 v2.31.0 // indirect
	github.com/dusted-go/logging v1.3.0 // indirect
	github.com/fatih/structs v1.1.0 // indirect
	github.com/fsnotify/fsnotify v1.8.0 // indirect
	github.com/klauspost/compress v1.18.0 // indirect
	github.com/klauspost/cpuid/v2 v2.2.10 // indirect
	github.com/knadh/koanf v1.5.0 // indirect
	github.com/libdns/libdns v0.2.3 // indirect
	github.com/mholt/acmez/v3 v3.1.0 // indirect
	github.com/miekg/dns v1.1.63 // indirect
	github.com/mitchellh/copystructure v1.2.0 // indirect
	github.com/mitchellh/mapstructure v1.5.0 // indirect
	github.com/mitchellh/reflectwalk v1.0.2 // indirect
	github.com/munnerz/goautoneg v0.0.0-20191010083416-a7dc8b61c822 // indirect
	github.com/prometheus/client_golang v1.21.1 // indirect
	github.com/prometheus/client_model v0.6.1 // indirect
	github.com/prometheus/common v0.63.0 // indirect
	github.com/prometheus/procfs v0.15.1 // indirect
	github.com/spf13/pflag v1.0.6 // indirect
	github.com/zeebo/blake3 v0.2.4 // indirect
	go.uber.org/multierr v1.11.0 // indirect
	go.uber.org/zap v1.27.0 // indirect
	go.uber.org/zap/exp v0.3.0 // indirect
	golang.org/x/crypto v0.36.0 // indirect
	golang.org/x/net v0.37.0 // indirect
	golang.org/x/sys v0.31.0 // indirect
	golang.org/x/text v0.23.0 // indirect
	google.golang.org/protobuf v1.36.5 // indirect
)

replace github.com/Dash-Industry-Forum/livesim2 => /repo
